"""Source normalisation applied before any rule runs (so that rules see through clean-up refactorings).

1. canonical attribute names - private attributes of the analysed classes are identified by their
   *role* (the declared type), not their spelling, and renamed in the in-memory AST to the name the
   rules use.  `self._buffer: deque[...]` of AsyncQueue is `_queue` for the analysis.
2. helper inlining - calls of private same-module helpers (functions, methods, static methods,
   `self.__exit__` from `__aexit__`) in statement position are replaced by the helper's body with
   parameters substituted by the argument expressions; single-expression helpers and private
   properties are substituted inside expressions.  The result is an ordinary AST (an inlined body is an
   `if True:` block tagged `_inline`), so every engine component works on it unchanged.

Nothing is executed; both steps are purely syntactic and driven by the annotation-based resolver.
"""

from __future__ import annotations

import ast
from typing import Callable

from .astutil import clone
from .loader import ClassInfo, FunctionInfo, Program, dotted, set_parents

# class (short qualname) -> {canonical attribute: predicate on the unparsed annotation / class-level value}
ROLES: dict[str, dict[str, Callable[[str], bool]]] = {
    "context.state.ScopeState": {"_state": lambda a: a.startswith("dict[")},
    "context.state.StateContext": {"_state": lambda a: a == "ScopeState", "_token": lambda a: a.startswith("Token["), "_context": lambda a: a.startswith("ContextVar[")},
    "context.metrics.MetricsContext": {"_metrics": lambda a: a == "ScopeMetrics", "_token": lambda a: a.startswith("Token["), "_context": lambda a: a.startswith("ContextVar[")},
    "context.tasks.TaskGroupContext": {"_group": lambda a: a == "TaskGroup", "_token": lambda a: a.startswith("Token["), "_context": lambda a: a.startswith("ContextVar[")},
    "context.access.ScopeContext": {
        "_task_group_context": lambda a: a == "TaskGroupContext",
        "_state_context": lambda a: a == "StateContext",
        "_metrics_context": lambda a: a == "MetricsContext",
        "_disposables": lambda a: a.startswith("Disposables"),
        "_state": lambda a: a.startswith("tuple[State"),
    },
    "context.disposables.Disposables": {"_disposables": lambda a: a.startswith("tuple[Disposable")},
    "context.metrics.ScopeMetrics": {
        "_completed": lambda a: a.startswith("Future["),
        "_nested": lambda a: a.startswith("list["),
        "_finished": lambda a: a == "bool",
        "_parent": lambda a: a.startswith("Self"),
        "_metrics": lambda a: a.startswith("dict["),
        "_logger": lambda a: a == "Logger",
        "_logger_prefix": lambda a: a == "str",
        "_timestamp": lambda a: a == "float",
        "_loop": lambda a: a == "AbstractEventLoop",
    },
    "utils.queue.AsyncQueue": {
        "_queue": lambda a: a.startswith("deque["),
        "_waiting": lambda a: a.startswith("Future["),
        "_finish_reason": lambda a: a.startswith("BaseException"),
        "_loop": lambda a: a == "AbstractEventLoop",
    },
    "helpers.caching._SyncCache": {"_cached": lambda a: a.startswith("OrderedDict["), "_limit": lambda a: a == "int", "_function": lambda a: a.startswith("Callable[Args"), "_next_expire_time": lambda a: a.startswith("Callable[[]")},
    "helpers.caching._AsyncCache": {"_cached": lambda a: a.startswith("OrderedDict["), "_limit": lambda a: a == "int", "_function": lambda a: a.startswith("Callable[Args"), "_next_expire_time": lambda a: a.startswith("Callable[[]")},
    "helpers.throttling._AsyncThrottle": {"_entries": lambda a: a.startswith("deque["), "_lock": lambda a: a == "Lock", "_limit": lambda a: a == "int", "_period": lambda a: a == "float", "_function": lambda a: a.startswith("Callable[")},
    "helpers.timeouted._AsyncTimeout": {"_function": lambda a: a.startswith("Callable["), "_timeout": lambda a: a == "float"},
    "helpers.asynchrony._ExecutorWrapper": {"_function": lambda a: a.startswith("Callable["), "_loop": lambda a: a.startswith("AbstractEventLoop"), "_executor": lambda a: a.startswith("Executor")},
    "types.missing.MissingType": {"_instance": lambda a: a == "Any"},
}


def role_renames(prog: Program) -> dict[str, dict[str, str]]:
    """class qualname -> {actual attribute name: canonical name} for attributes whose role is
    identified unambiguously by their declared type and whose name differs from the canonical one."""
    out: dict[str, dict[str, str]] = {}
    for short, roles in ROLES.items():
        ci = prog.classes.get("haiway." + short)
        if ci is None:
            continue
        private = {}
        for name, ann in ci.attr_ann.items():
            if name.startswith("_") and not name.startswith("__"):
                while isinstance(ann, ast.Subscript) and ast.unparse(ann.value).replace("typing.", "") in ("ClassVar", "Final"):
                    ann = ann.slice  # `_current: ClassVar[ContextVar[T]] = ContextVar(...)`: the role is in the wrapped annotation
                head = ann.value if isinstance(ann, ast.Subscript) else ann
                if isinstance(head, ast.Name):
                    # a `type _Entries[T] = OrderedDict[Hashable, T]` alias of the module: the role is read from what it stands for
                    alias = next((st for st in ci.module.tree.body if isinstance(st, ast.TypeAlias) and st.name.id == head.id), None)
                    if alias is not None:
                        ann = alias.value
                private[name] = ast.unparse(ann).replace("typing.", "")
        for name, val in ci.class_assign.items():
            if name.startswith("_") and not name.startswith("__") and name not in private and isinstance(val, ast.Call):
                private[name] = ast.unparse(val.func)
        m: dict[str, str] = {}
        for canonical, pred in roles.items():
            if canonical in private and _safe(pred, private[canonical]):
                continue  # already named canonically
            cands = [n for n, a in private.items() if _safe(pred, a) and n not in roles]
            if len(cands) == 1 and canonical not in private:
                m[cands[0]] = canonical
        if m:
            out[ci.qualname] = m
    return out


def _sets_attr(fi: FunctionInfo, attr: str, method: str | None = None, const: object = ...) -> bool:
    """Does the method assign self.<attr> (to `const`) / call self.<attr>.<method>(...)?"""
    for n in fi.own_nodes():
        if method is not None and isinstance(n, ast.Call) and isinstance(n.func, ast.Attribute) and n.func.attr == method and isinstance(n.func.value, ast.Attribute) and n.func.value.attr == attr:
            return True
        if method is None and isinstance(n, (ast.Assign, ast.AnnAssign)) and getattr(n, "value", None) is not None:
            for t in n.targets if isinstance(n, ast.Assign) else [n.target]:
                if isinstance(t, ast.Attribute) and t.attr == attr and (const is ... or (isinstance(n.value, ast.Constant) and n.value.value is const)):
                    return True
    return False


# class (short qualname) -> {canonical private method: predicate on the method}: methods that anchor rule tables are
# recognised by what they do (after the attribute renames), so that renaming them does not lose the anchor
METHOD_ROLES: dict[str, dict[str, Callable[[FunctionInfo], bool]]] = {
    "context.metrics.ScopeMetrics": {
        "_complete_if_able": lambda f: _sets_attr(f, "_completed", method="set_result"),
        "_finish": lambda f: _sets_attr(f, "_finished", const=True) and not _sets_attr(f, "_completed", method="set_result"),
    },
}


def method_role_renames(prog: Program) -> dict[str, dict[str, str]]:
    out: dict[str, dict[str, str]] = {}
    for short, roles in METHOD_ROLES.items():
        ci = prog.classes.get("haiway." + short)
        if ci is None:
            continue
        m: dict[str, str] = {}
        for canonical, pred in roles.items():
            if canonical in ci.methods:
                continue
            cands = [name for name, fs in ci.methods.items() if name.startswith("_") and not name.startswith("__") and name not in roles and any(_safe(pred, f) for f in fs)]
            if len(cands) == 1:
                m[cands[0]] = canonical
        if m:
            out[ci.qualname] = m
    return out


def _safe(pred, text) -> bool:
    try:
        return bool(pred(text))
    except Exception:  # noqa: BLE001
        return False


def apply_renames(prog: Program, renames: dict[str, dict[str, str]]) -> list[str]:
    """Rewrite attribute names in place (module ASTs of prog).  Returns a log of what was renamed."""
    log: list[str] = []
    if not renames:
        return log
    by_actual: dict[str, list[tuple[str, str]]] = {}
    for cq, m in renames.items():
        for actual, canon in m.items():
            by_actual.setdefault(actual, []).append((cq, canon))
            log.append(f"{cq}.{actual} -> {canon}")
    for mod in prog.modules.values():
        for node in ast.walk(mod.tree):
            if isinstance(node, ast.Attribute) and node.attr in by_actual:
                fi = _enclosing_function(prog, node)
                target = None
                if fi is not None:
                    t = prog.expr_type(fi, node.value)
                    if t is not None:
                        for cq, canon in by_actual[node.attr]:
                            if t.name == cq or (t.name in prog.classes and prog.classes[cq] in prog.mro(prog.classes[t.name])):
                                target = canon
                    elif fi.cls is not None and isinstance(node.value, ast.Name):
                        sn = prog.self_name(fi)
                        if sn and node.value.id == sn[0]:
                            for cq, canon in by_actual[node.attr]:
                                if fi.cls.qualname == cq:
                                    target = canon
                if target is None and len(by_actual[node.attr]) == 1 and _unique_private(prog, node.attr):
                    target = by_actual[node.attr][0][1]
                if target is not None:
                    node.attr = target
            elif isinstance(node, ast.ClassDef):
                q = next((c.qualname for c in prog.classes.values() if c.node is node), None)
                if q in renames:
                    for s in node.body:
                        if isinstance(s, (ast.FunctionDef, ast.AsyncFunctionDef)) and s.name in renames[q]:
                            s.name = renames[q][s.name]
                        tgts = s.targets if isinstance(s, ast.Assign) else ([s.target] if isinstance(s, ast.AnnAssign) else [])
                        for t in tgts:
                            if isinstance(t, ast.Name) and t.id in renames[q]:
                                t.id = renames[q][t.id]
    return log


def _unique_private(prog: Program, name: str) -> bool:
    owners = [c for c in prog.classes.values() if name in c.attr_ann or name in c.class_assign]
    return len(owners) == 1


def _enclosing_function(prog: Program, node: ast.AST) -> FunctionInfo | None:
    from .loader import ancestors

    for a in ancestors(node):
        fi = prog.func_of_node.get(id(a))
        if fi is not None:
            return fi
    return None


# ---------------------------------------------------------------------------------------------- inlining
# Private helpers that exist in the pinned tree and are *anchors* of rule tables: analysed as functions of
# their own, never inlined.  Any other private same-module helper is taken to be the product of a
# clean-up refactoring and is inlined into its callers so that the anchored functions show its effects.
ANCHOR_HELPERS = frozenset(
    "haiway." + q
    for q in (
        "context.disposables.Disposables._initialize",
        "context.metrics.ScopeMetrics._complete_if_able",
        "context.metrics.ScopeMetrics._finish",
        "helpers.asynchrony._mimic_async",
        "helpers.caching.cache._wrap",
        "helpers.retries._wrap_async",
        "helpers.retries._wrap_sync",
        "helpers.retries.retry._wrap",
        "helpers.throttling.throttle._wrap",
        "helpers.timeouted.timeout._wrap",
        "helpers.tracing._traced_async",
        "helpers.tracing._traced_sync",
        "state.attributes._resolve_attribute_annotation",
        "state.validation._prepare_validator_of_any",
        "state.validation._prepare_validator_of_callable",
        "state.validation._prepare_validator_of_literal",
        "state.validation._prepare_validator_of_mapping",
        "state.validation._prepare_validator_of_missing",
        "state.validation._prepare_validator_of_none",
        "state.validation._prepare_validator_of_sequence",
        "state.validation._prepare_validator_of_set",
        "state.validation._prepare_validator_of_tuple",
        "state.validation._prepare_validator_of_type",
        "state.validation._prepare_validator_of_union",
    )
)
SIMPLE = (ast.Name, ast.Constant)


def _is_simple(e: ast.AST) -> bool:
    if isinstance(e, SIMPLE):
        return True
    if isinstance(e, ast.Attribute):
        return _is_simple(e.value)
    if isinstance(e, ast.Starred):
        return _is_simple(e.value)
    return False


_PURE_BUILTINS = ("bool", "len", "str", "int", "float", "tuple", "list", "type", "repr", "isinstance", "callable")


def _is_pure_conversion(e: ast.AST) -> bool:
    """bool(x), len(x), type(x) ... of plain operands, comparisons / boolean combinations of such: no effects, any order."""
    if _is_simple(e):
        return True
    if isinstance(e, ast.Call) and isinstance(e.func, ast.Name) and e.func.id in _PURE_BUILTINS and not e.keywords:
        return all(_is_pure_conversion(a) and not isinstance(a, ast.Starred) for a in e.args)
    if isinstance(e, ast.UnaryOp) and isinstance(e.op, ast.Not):
        return _is_pure_conversion(e.operand)
    if isinstance(e, ast.BoolOp):
        return all(_is_pure_conversion(v) for v in e.values)
    if isinstance(e, ast.Compare) and all(isinstance(o, (ast.Is, ast.IsNot, ast.Eq, ast.NotEq, ast.Lt, ast.LtE, ast.Gt, ast.GtE)) for o in e.ops):
        return _is_pure_conversion(e.left) and all(_is_pure_conversion(c) for c in e.comparators)
    return False


PKG_PREFIX = "haiway."


class Inliner:
    MAX_DEPTH = 3

    def __init__(self, prog: Program) -> None:
        self.prog = prog
        self.counter = 0
        self.inlined_sites: dict[str, int] = {}
        self.opaque_sites: dict[str, int] = {}
        self.log: list[str] = []

    # -- which callee may be inlined at this call
    def _super_init(self, fi: FunctionInfo, call: ast.Call) -> FunctionInfo | None:
        """`super().__init__(...)` in the __init__ of a class whose base is a private class of the same module (a storage /
        plumbing base extracted from sibling classes): the base's initialiser, to be read as part of this one."""
        f = call.func
        if not (fi.name == "__init__" and fi.is_method and fi.cls is not None and isinstance(f, ast.Attribute) and f.attr == "__init__"):
            return None
        if not (isinstance(f.value, ast.Call) and isinstance(f.value.func, ast.Name) and f.value.func.id == "super" and not f.value.args and not f.value.keywords):
            return None
        for c in self.prog.mro(fi.cls)[1:]:
            m = c.method("__init__")
            if m is not None:
                if c.module is fi.module and c.name.startswith("_") and not m.decorator_names():
                    sn = self.prog.self_name(fi)
                    if sn is not None:
                        call._super_self = sn[0]  # type: ignore[attr-defined]
                        return m
                return None
        return None

    @staticmethod
    def _pure_delegation(fi: FunctionInfo, call: ast.Call) -> bool:
        body = [s for s in fi.node.body if not (isinstance(s, ast.Expr) and isinstance(s.value, ast.Constant))]
        if len(body) != 1 or not isinstance(body[0], (ast.Expr, ast.Return)):
            return False
        v = body[0].value
        if isinstance(v, ast.Await):
            v = v.value
        return ast.dump(v) == ast.dump(call)  # (the flattener works on a clone of the body)

    def _bring_globals(self, fi: FunctionInfo, t: FunctionInfo) -> bool:
        """Make every module-level name the callee reads resolvable in the caller's module (as an extra import of what it
        resolves to in the callee's module); False when a name means something else there already."""
        import builtins

        bound = self.prog.local_names(t) | set(t.param_names())
        free = {n.id for n in t.own_nodes() if isinstance(n, ast.Name) and isinstance(n.ctx, ast.Load)} - bound
        for nf in t.nested:
            free |= {n.id for n in nf.own_nodes() if isinstance(n, ast.Name) and isinstance(n.ctx, ast.Load)} - self.prog.local_names(nf) - set(nf.param_names()) - bound
        adds: dict[str, str] = {}
        for name in free:
            if hasattr(builtins, name) and name not in t.module.imports and name not in t.module.functions and name not in t.module.classes and name not in t.module.assigns:
                continue
            there = self.prog.resolve_global(t.module, name)
            if there is None or there.startswith(PKG_PREFIX):
                # only code that depends on nothing of the package (code parked in another module) is read in place; a
                # function that works on its own module's or class's state *is* the mechanism the caller delegates to
                return False
            here = self.prog.resolve_global(fi.module, name)
            if here is None:
                adds[name] = there
            elif here != there:
                return False
        for k, v in adds.items():
            fi.module.extra_imports.setdefault(k, v)
            fi.module.imports.setdefault(k, v)
        return True

    def target(self, fi: FunctionInfo, call: ast.Call, awaited: bool) -> FunctionInfo | None:
        sup = self._super_init(fi, call)
        if sup is not None and not awaited and not (sup.node.args.vararg or sup.node.args.kwarg) and not any(isinstance(x, (ast.Nonlocal, ast.Global)) for x in sup.own_nodes()):
            return sup
        q = self.prog.resolve_callee(fi, call)
        t = self.prog.functions.get(q or "")
        if t is None or t is fi:
            return None
        delegated = False
        if t.module is not fi.module:
            # a function whose whole body hands the call on to a function of another module of the package (`ctx.cancel` ->
            # `TaskGroupContext.cancel()`): that function is read in its place, with the names it uses resolved as in its own
            # module
            if t.is_method and "staticmethod" not in t.decorator_names():
                return None  # works on its class / instance
            if not (self._pure_delegation(fi, call) and self._bring_globals(fi, t)):
                return None
            delegated = True
        name = t.name
        private = delegated or (name.startswith("_") and not (name.startswith("__") and name.endswith("__")))
        self_dunder = (
            name in ("__exit__", "__enter__")
            and isinstance(call.func, ast.Attribute)
            and isinstance(call.func.value, ast.Name)
            and (sn := self.prog.self_name(fi)) is not None
            and call.func.value.id == sn[0]
            and fi.cls is not None
            and t.cls is fi.cls
        )
        if not (private or self_dunder):
            return None
        if t.qualname.split("#")[0] in ANCHOR_HELPERS:
            return None
        if t.is_generator() or t.outer is not None and t.outer is not fi.outer and t.outer is not fi:
            return None
        decos = set(t.decorator_names())
        if decos - {"staticmethod", "classmethod"}:
            return None
        if t.is_async and not (awaited and fi.is_async):
            return None
        if not t.is_async and awaited:
            return None
        a = t.node.args
        if a.vararg or a.kwarg:
            if not self._varargs_forwardable(t, call):
                return None
        if any(isinstance(x, (ast.Nonlocal, ast.Global)) for x in t.own_nodes()):
            return None
        return t

    @staticmethod
    def _varargs_forwardable(t: FunctionInfo, call: ast.Call) -> bool:
        """*args / **kwargs of the helper are bound by name when the call forwards whole collections
        (`helper(a, b, *xs, **kw)`) or passes nothing into them; decided in bind()."""
        a = t.node.args
        names = {x.arg for x in (a.vararg, a.kwarg) if x is not None}
        return not any(isinstance(n, ast.Name) and n.id in names and isinstance(n.ctx, (ast.Store, ast.Del)) for n in t.own_nodes())

    # -- parameter binding
    def bind(self, t: FunctionInfo, call: ast.Call) -> tuple[dict[str, ast.AST], list[ast.stmt]] | None:
        a = t.node.args
        params = [p.arg for p in a.posonlyargs + a.args]
        defaults = dict(zip(reversed(params), reversed(a.defaults)))
        kwonly = {p.arg: d for p, d in zip(a.kwonlyargs, a.kw_defaults)}
        mapping: dict[str, ast.AST] = {}
        pre: list[ast.stmt] = []
        args = list(call.args)
        keywords = list(call.keywords)
        star = [x for x in args if isinstance(x, ast.Starred)]
        dstar = [k for k in keywords if k.arg is None]
        var_value: ast.AST | None = None
        kw_value: ast.AST | None = None
        if star:
            if not (a.vararg and len(star) == 1 and args[-1] is star[0] and isinstance(star[0].value, ast.Name)):
                return None
            var_value = star[0].value
            args = args[:-1]
        if dstar:
            if not (a.kwarg and len(dstar) == 1 and isinstance(dstar[0].value, ast.Name)):
                return None
            if a.args or a.kwonlyargs:
                # a forwarded key equal to a named (non positional-only) parameter of the helper - `self` included -
                # collides at run time: such a helper is not a transparent wrapper, keep it opaque
                return None
            kw_value = dstar[0].value
            keywords = [k for k in keywords if k.arg is not None]
        decos = set(t.decorator_names())
        if t.is_method and "staticmethod" not in decos:
            if not isinstance(call.func, ast.Attribute):
                return None
            recv = call.func.value
            if getattr(call, "_super_self", None):
                recv = ast.copy_location(ast.Name(id=call._super_self, ctx=ast.Load()), recv)  # type: ignore[attr-defined]
            if "classmethod" in decos and not _is_simple(recv):
                return None
            args = [recv, *args]
        if star and len(args) < len(params):
            return None  # the starred elements would (partly) fill named parameters
        if star and len(args) > len(params):
            # extra positionals travel in the helper's *args in front of the forwarded collection
            if not a.vararg or not all(_is_simple(x) for x in args[len(params) :]):
                return None
            var_value = ast.Tuple(elts=[clone(x) for x in args[len(params) :]] + [ast.Starred(value=clone(var_value), ctx=ast.Load())], ctx=ast.Load())
            args = args[: len(params)]
        if len(args) > len(params):
            if not a.vararg or star or not all(_is_simple(x) for x in args[len(params) :]):
                return None
            var_value = ast.Tuple(elts=[clone(x) for x in args[len(params) :]], ctx=ast.Load())
            args = args[: len(params)]
        for p, v in zip(params, args):
            mapping[p] = v
        extra_kw: list[ast.keyword] = []
        for k in keywords:
            if k.arg in mapping:
                return None
            if k.arg not in params and k.arg not in kwonly:
                if not a.kwarg or dstar or not _is_simple(k.value):
                    return None
                extra_kw.append(k)
                continue
            if k.arg in [p.arg for p in a.posonlyargs]:
                return None
            mapping[k.arg] = k.value
        if dstar and any(p not in mapping and p not in defaults for p in params):
            return None  # the ** mapping might supply named parameters
        if a.vararg:
            mapping[a.vararg.arg] = var_value if var_value is not None else ast.Tuple(elts=[], ctx=ast.Load())
        if a.kwarg:
            if kw_value is None:
                kw_value = ast.Dict(keys=[ast.Constant(value=k.arg) for k in extra_kw], values=[clone(k.value) for k in extra_kw])
            mapping[a.kwarg.arg] = kw_value
        for p in params:
            if p not in mapping:
                if p not in defaults:
                    return None
                mapping[p] = defaults[p]
        for p, dflt in kwonly.items():
            if p not in mapping:
                if dflt is None:
                    return None
                mapping[p] = dflt
        self.counter += 1
        k = self.counter
        final: dict[str, ast.AST] = {}
        collections_ = {x.arg for x in (a.vararg, a.kwarg) if x is not None}
        for p, v in mapping.items():
            assigned_in_t = any(isinstance(n, ast.Name) and n.id == p and isinstance(n.ctx, ast.Store) for n in t.own_nodes())
            if p in collections_:
                final[p] = v  # bound by name / literal: `*args` inside the helper reads `*<caller's collection>`
            elif _is_simple(v) and not assigned_in_t:
                final[p] = v
            else:
                tmp = f"{p}__h{k}"
                pre.append(_at(ast.Assign(targets=[ast.Name(id=tmp, ctx=ast.Store())], value=clone(v)), call))
                final[p] = ast.Name(id=tmp, ctx=ast.Load())
        return final, pre

    # -- body substitution
    def substituted_body(self, t: FunctionInfo, mapping: dict[str, ast.AST], k: int, ret: str, flat_body: list[ast.stmt]) -> list[ast.stmt]:
        locals_ = self.prog.local_names(t) - set(mapping)
        rename = {n: f"{n}__h{k}" for n in locals_}

        class T(ast.NodeTransformer):
            def visit_Name(self, n: ast.Name):  # noqa: N802
                if n.id in mapping and isinstance(n.ctx, ast.Load):
                    return clone(mapping[n.id])
                if n.id in rename:
                    return ast.copy_location(ast.Name(id=rename[n.id], ctx=n.ctx), n)
                return n

            nested = 0

            def visit_Call(self, n: ast.Call):  # noqa: N802
                self.generic_visit(n)
                # f(*(<a>, *<xs>))  ->  f(<a>, *<xs>)   (a tuple display bound to the helper's *args)
                flat: list[ast.expr] = []
                for a_ in n.args:
                    if isinstance(a_, ast.Starred) and isinstance(a_.value, ast.Tuple):
                        flat.extend(a_.value.elts)
                    else:
                        flat.append(a_)
                n.args = flat
                return n

            def visit_Return(self, n: ast.Return):  # noqa: N802
                self.generic_visit(n)
                if self.nested:
                    return n  # a return of a closure defined inside the helper
                val = n.value if n.value is not None else ast.Constant(value=None)
                new = ast.copy_location(ast.Assign(targets=[ast.Name(id=ret, ctx=ast.Store())], value=val), n)
                new._inline_return = True  # type: ignore[attr-defined]
                return new

            def visit_FunctionDef(self, n):  # noqa: N802 - closures capture the helper's (substituted) variables
                if n.name in rename:
                    n.name = rename[n.name]
                self.nested += 1
                self.generic_visit(n)
                self.nested -= 1
                return n

            visit_AsyncFunctionDef = visit_FunctionDef

            def visit_Lambda(self, n):  # noqa: N802
                self.nested += 1
                self.generic_visit(n)
                self.nested -= 1
                return n

            def visit_ExceptHandler(self, n: ast.ExceptHandler):  # noqa: N802
                self.generic_visit(n)
                if n.name in rename:
                    n.name = rename[n.name]
                return n

            def visit_MatchAs(self, n: ast.MatchAs):  # noqa: N802
                self.generic_visit(n)
                if n.name in rename:
                    n.name = rename[n.name]
                return n

            def visit_MatchStar(self, n: ast.MatchStar):  # noqa: N802
                if n.name in rename:
                    n.name = rename[n.name]
                return n

        body = [T().visit(clone(s)) for s in flat_body if not (isinstance(s, ast.Expr) and isinstance(s.value, ast.Constant))]
        for s in body:
            ast.fix_missing_locations(s)
        return body

    # -- flatten one function body (list of statements), recursively
    def flatten_function(self, fi: FunctionInfo, stack: tuple[str, ...] = ()) -> list[ast.stmt]:
        cache = self.__dict__.setdefault("_flat", {})
        if fi.qualname in cache:
            return cache[fi.qualname]
        body = self._flatten_body(fi, [clone(s) for s in fi.node.body], stack + (fi.qualname,))
        if not stack:
            cache[fi.qualname] = body
        return body

    def _flatten_body(self, fi: FunctionInfo, body: list[ast.stmt], stack: tuple[str, ...]) -> list[ast.stmt]:
        out: list[ast.stmt] = []
        for s in body:
            out.extend(self._flatten_stmt(fi, s, stack))
        return out

    def _flatten_stmt(self, fi: FunctionInfo, s: ast.stmt, stack: tuple[str, ...]) -> list[ast.stmt]:
        # `x = helper(...) if c else other`: a helper call inside an arm of a conditional expression is not what the statement
        # evaluates first - the assignment is read as the `if` statement it abbreviates, each arm assigning on its own
        if isinstance(s, (ast.Assign, ast.AnnAssign)) and isinstance(getattr(s, "value", None), ast.IfExp) and len(stack) <= self.MAX_DEPTH:
            v = s.value
            tgt_ = s.targets[0] if isinstance(s, ast.Assign) and len(s.targets) == 1 else (s.target if isinstance(s, ast.AnnAssign) else None)

            def calls_helper(e: ast.AST) -> bool:
                for c in ast.walk(e):
                    if isinstance(c, ast.Call):
                        t = self.target(fi, c, awaited=False)
                        if t is not None and t.qualname not in stack and _single_expression(t) is None:
                            return True
                return False

            if isinstance(tgt_, ast.Name) and (calls_helper(v.body) or calls_helper(v.orelse)):
                mk = lambda val: ast.copy_location(ast.Assign(targets=[ast.Name(id=tgt_.id, ctx=ast.Store())], value=val), s)  # noqa: E731
                new_if = ast.fix_missing_locations(ast.copy_location(ast.If(test=v.test, body=[mk(v.body)], orelse=[mk(v.orelse)]), s))
                pre_: list[ast.stmt] = []
                if isinstance(s, ast.AnnAssign):
                    pre_.append(ast.fix_missing_locations(ast.copy_location(ast.AnnAssign(target=ast.Name(id=tgt_.id, ctx=ast.Store()), annotation=s.annotation, value=None, simple=1), s)))
                return pre_ + self._flatten_stmt(fi, new_if, stack)
        # recurse into compound statements first
        for field in ("body", "orelse", "finalbody"):
            sub = getattr(s, field, None)
            if isinstance(sub, list) and sub and isinstance(sub[0], ast.stmt) and not isinstance(s, (ast.FunctionDef, ast.AsyncFunctionDef, ast.ClassDef)):
                setattr(s, field, self._flatten_body(fi, sub, stack))
        if isinstance(s, ast.Try):
            for h in s.handlers:
                h.body = self._flatten_body(fi, h.body, stack)
        if isinstance(s, ast.Match):
            for c in s.cases:
                c.body = self._flatten_body(fi, c.body, stack)
        # expression-level substitution of single-expression helpers / private properties
        self._substitute_expressions(fi, s, stack)
        # statement-level inlining: the helper call must be the first thing the statement evaluates
        first = _left_spine_slot(s)
        if first is None or isinstance(s, (ast.For, ast.AsyncFor, ast.Match)):
            return [s]
        found = None
        for owner, field, idx in _spine_positions(*first):
            e = _get_slot(owner, field, idx)
            awaited = isinstance(e, ast.Await)
            c = e.value if awaited else e
            if isinstance(c, ast.Call) and self.target(fi, c, awaited) is not None:
                found = (owner, field, idx, e, c, awaited)
                break
        if found is None:
            # record opaque same-module private helpers
            for c in [x for x in ast.walk(getattr(*first)) if isinstance(x, ast.Call)]:
                q = self.prog.resolve_callee(fi, c)
                if q in self.prog.functions and self.prog.functions[q].module is fi.module and self._is_private_helper(self.prog.functions[q]):
                    self.opaque_sites[q] = self.opaque_sites.get(q, 0) + 1
            return [s]
        owner, field, idx, e, call, awaited = found
        if len(stack) > self.MAX_DEPTH:
            return [s]
        t = self.target(fi, call, awaited)
        if t is None:
            q = self.prog.resolve_callee(fi, call)
            if q in self.prog.functions and self.prog.functions[q].module is fi.module:
                self.opaque_sites[q] = self.opaque_sites.get(q, 0) + 1
            return [s]
        if t.qualname in stack:
            return [s]
        bound = self.bind(t, call)
        if bound is None:
            self.opaque_sites[t.qualname] = self.opaque_sites.get(t.qualname, 0) + 1
            return [s]
        mapping, pre = bound
        k = self.counter
        ret = f"__ret_h{k}"
        # argument temporaries are evaluated in the caller: helper calls inside them (`f(await g(...))`) are inlined too
        pre = self._flatten_body(fi, pre, stack)
        inner = self._flatten_body(t, [clone(x) for x in t.node.body], stack + (t.qualname,))
        body = self.substituted_body(t, mapping, k, ret, inner)
        block = _at(ast.If(test=ast.Constant(value=True), body=pre + body or [ast.Pass()], orelse=[]), call)
        block._inline = t.qualname  # type: ignore[attr-defined]
        block._inline_call = ast.unparse(call)[:120]  # type: ignore[attr-defined]
        ast.fix_missing_locations(block)
        self.inlined_sites[t.qualname] = self.inlined_sites.get(t.qualname, 0) + 1
        self.log.append(f"{fi.short}: inlined {t.short}")
        whole = isinstance(s, ast.Expr) and _get_slot(owner, field, idx) is s.value
        if whole:
            return [block]
        init = _at(ast.Assign(targets=[ast.Name(id=ret, ctx=ast.Store())], value=ast.Constant(value=None)), call)
        init._inline_init = True  # type: ignore[attr-defined]
        _set_slot(owner, field, idx, ast.copy_location(ast.Name(id=ret, ctx=ast.Load()), call))
        return [block, s] if _always_returns(body) else [init, block, s]

    @staticmethod
    def _is_private_helper(t: FunctionInfo) -> bool:
        n = t.name
        return n.startswith("_") and not (n.startswith("__") and n.endswith("__")) and t.qualname.split("#")[0] not in ANCHOR_HELPERS

    def _substitute_expressions(self, fi: FunctionInfo, s: ast.stmt, stack: tuple[str, ...]) -> None:
        inl = self

        class T(ast.NodeTransformer):
            def visit_FunctionDef(self, n):  # noqa: N802
                return n

            visit_AsyncFunctionDef = visit_FunctionDef
            visit_ClassDef = visit_FunctionDef
            visit_Lambda = visit_FunctionDef

            def generic_stmt_guard(self, n):
                return n

            def visit_Call(self, n: ast.Call):  # noqa: N802
                self.generic_visit(n)
                t = inl.target(fi, n, awaited=False)
                if t is None or t.qualname in stack or len(stack) > inl.MAX_DEPTH:
                    return n
                expr = _single_expression(t)
                if expr is None:
                    return n
                bound = inl.bind(t, n)
                if bound is None:
                    return n
                mapping, pre_ = bound
                if pre_:
                    # arguments that are not plain names: substitutable in place when they are pure (builtin conversions
                    # of plain operands) and the helper's expression uses the parameter once; otherwise temporaries would
                    # be needed - left for statement-level handling
                    for a_ in pre_:
                        tmp_, v_ = a_.targets[0].id, a_.value  # type: ignore[union-attr]
                        uses_ = sum(1 for x in ast.walk(expr) for p_, mv in mapping.items() if isinstance(mv, ast.Name) and mv.id == tmp_ and isinstance(x, ast.Name) and x.id == p_)
                        if not (_is_pure_conversion(v_) and uses_ <= 1):
                            return n
                    for a_ in pre_:
                        for p_, mv in list(mapping.items()):
                            if isinstance(mv, ast.Name) and mv.id == a_.targets[0].id:  # type: ignore[union-attr]
                                mapping[p_] = a_.value
                if any(sum(1 for x in ast.walk(expr) if isinstance(x, ast.Name) and x.id == p) > 1 and not _is_simple(v) for p, v in mapping.items()):
                    return n
                new = _subst_expr(expr, mapping)
                inl.inlined_sites[t.qualname] = inl.inlined_sites.get(t.qualname, 0) + 1
                inl.log.append(f"{fi.short}: substituted {t.short}(...)")
                return ast.copy_location(new, n)

            def visit_Attribute(self, n: ast.Attribute):  # noqa: N802
                self.generic_visit(n)
                if not isinstance(n.ctx, ast.Load) or not (n.attr.startswith("_") and not n.attr.startswith("__")):
                    return n
                if not _is_simple(n.value):
                    return n
                ty = inl.prog.expr_type(fi, n.value)
                if ty is None or ty.name not in inl.prog.classes:
                    return n
                for c in inl.prog.mro(inl.prog.classes[ty.name]):
                    m = c.method(n.attr)
                    if m is not None:
                        if "property" not in m.decorator_names() or m.module is not fi.module or m.qualname in stack:
                            return n
                        expr = _single_expression(m)
                        if expr is None:
                            return n
                        selfname = (m.node.args.posonlyargs + m.node.args.args)[0].arg
                        new = _subst_expr(expr, {selfname: n.value})
                        inl.inlined_sites[m.qualname] = inl.inlined_sites.get(m.qualname, 0) + 1
                        inl.log.append(f"{fi.short}: substituted property {m.short}")
                        return ast.copy_location(new, n)
                return n

        # only the statement's own expressions (headers of compound statements; whole simple statements)
        if isinstance(s, (ast.If, ast.While)):
            s.test = T().visit(s.test)
        elif isinstance(s, (ast.For, ast.AsyncFor)):
            s.iter = T().visit(s.iter)
        elif isinstance(s, (ast.With, ast.AsyncWith)):
            for it in s.items:
                it.context_expr = T().visit(it.context_expr)
        elif isinstance(s, ast.Match):
            s.subject = T().visit(s.subject)
        elif isinstance(s, (ast.Expr, ast.Assign, ast.AnnAssign, ast.AugAssign, ast.Return, ast.Raise, ast.Assert, ast.Delete)):
            # a direct helper call in statement position is handled by statement-level inlining; substitute elsewhere
            top = getattr(s, "value", None)
            direct = top.value if isinstance(top, ast.Await) else top
            for field, val in list(ast.iter_fields(s)):
                if isinstance(val, ast.expr):
                    if val is top and isinstance(direct, ast.Call) and _single_expression_target(inl, fi, direct) is None:
                        # visit only the arguments
                        direct.args = [T().visit(a) for a in direct.args]
                        for kw_ in direct.keywords:
                            kw_.value = T().visit(kw_.value)
                        continue
                    setattr(s, field, T().visit(val))
                elif isinstance(val, list):
                    setattr(s, field, [T().visit(v) if isinstance(v, ast.expr) else v for v in val])
        ast.fix_missing_locations(s)


def _single_expression_target(inl: Inliner, fi: FunctionInfo, call: ast.Call):
    t = inl.target(fi, call, awaited=False)
    if t is None:
        return None
    return t if _single_expression(t) is not None else None


def _single_expression(t: FunctionInfo) -> ast.expr | None:
    body = [s for s in t.node.body if not (isinstance(s, ast.Expr) and isinstance(s.value, ast.Constant))]
    if len(body) == 1 and isinstance(body[0], ast.Return) and body[0].value is not None and not t.is_async:
        if not any(isinstance(x, (ast.Await, ast.Yield, ast.YieldFrom, ast.NamedExpr, ast.Lambda)) for x in ast.walk(body[0].value)):
            return body[0].value
    return None


def _subst_expr(expr: ast.expr, mapping: dict[str, ast.AST]) -> ast.expr:
    class T(ast.NodeTransformer):
        def visit_Name(self, n: ast.Name):  # noqa: N802
            if n.id in mapping and isinstance(n.ctx, ast.Load):
                return clone(mapping[n.id])
            return n

        def visit_ListComp(self, n):  # noqa: N802 - comprehension targets shadow nothing we substitute
            self.generic_visit(n)
            return n

    return T().visit(clone(expr))


def _always_returns(body: list[ast.stmt]) -> bool:
    if not body:
        return False
    last = body[-1]
    if getattr(last, "_inline_return", False) or isinstance(last, ast.Raise):
        return True
    if isinstance(last, ast.If) and last.orelse:
        return _always_returns(last.body) and _always_returns(last.orelse)
    if isinstance(last, ast.Try):
        return False
    return False


def _at(node: ast.AST, where: ast.AST) -> ast.AST:
    ast.copy_location(node, where)
    return node


# ---------------------------------------------------------------------------------------------- local simplification
def _name_uses(body: list[ast.stmt], name: str) -> tuple[list[ast.Name], list[ast.AST]]:
    loads, stores = [], []
    decls = {id(n.target) for s in body for n in ast.walk(s) if isinstance(n, ast.AnnAssign) and n.value is None}
    for s in body:
        for n in ast.walk(s):
            if isinstance(n, ast.Name) and n.id == name:
                if id(n) in decls:
                    continue  # bare annotation: a declaration, not a store
                (loads if isinstance(n.ctx, ast.Load) else stores).append(n)
            elif isinstance(n, (ast.MatchAs, ast.MatchStar)) and n.name == name:
                stores.append(n)
            elif isinstance(n, ast.ExceptHandler) and n.name == name:
                stores.append(n)
            elif isinstance(n, (ast.Nonlocal, ast.Global)) and name in n.names:
                stores.append(n)
                stores.append(n)
    return loads, stores


def _left_spine_slot(s: ast.stmt) -> tuple[ast.AST, str] | None:
    """(owner node, field) of the expression a statement evaluates first."""
    if isinstance(s, ast.If):
        return s, "test"
    if isinstance(s, (ast.Assign, ast.AnnAssign, ast.Return, ast.Expr)) and getattr(s, "value", None) is not None:
        return s, "value"
    if isinstance(s, ast.Raise) and s.exc is not None:
        return s, "exc"
    if isinstance(s, ast.Assert):
        return s, "test"
    if isinstance(s, (ast.For, ast.AsyncFor)):
        return s, "iter"
    if isinstance(s, ast.Match):
        return s, "subject"
    return None


def _is_type_expression(e: ast.AST) -> bool:
    """Names, dotted names, subscriptions, `|` unions, lists / tuples of those and constants: evaluating it calls nothing
    of the analysed package."""
    if isinstance(e, (ast.Name, ast.Constant)):
        return True
    if isinstance(e, ast.Attribute):
        return _is_type_expression(e.value)
    if isinstance(e, ast.Subscript):
        return _is_type_expression(e.value) and _is_type_expression(e.slice)
    if isinstance(e, ast.BinOp) and isinstance(e.op, ast.BitOr):
        return _is_type_expression(e.left) and _is_type_expression(e.right)
    if isinstance(e, (ast.Tuple, ast.List)):
        return all(_is_type_expression(x) for x in e.elts)
    return False


def _spine_positions(owner: ast.AST, field: str):
    """Yield (owner, field, index|None) slots along the left spine (first-evaluated sub-expressions)."""
    e = getattr(owner, field)
    idx = None
    while True:
        yield owner, field, idx
        cur = e
        if isinstance(cur, (ast.UnaryOp,)):
            owner, field, idx = cur, "operand", None
        elif isinstance(cur, ast.BoolOp):
            owner, field, idx = cur, "values", 0
        elif isinstance(cur, (ast.Compare, ast.BinOp)):
            owner, field, idx = cur, "left", None
        elif isinstance(cur, (ast.Await, ast.NamedExpr, ast.Starred, ast.Attribute, ast.Subscript)):
            owner, field, idx = cur, "value", None
        elif isinstance(cur, ast.IfExp):
            owner, field, idx = cur, "test", None
        elif isinstance(cur, ast.Call):
            if isinstance(cur.func, ast.Attribute) and _is_simple(cur.func.value) and cur.args and not isinstance(cur.args[0], ast.Starred):
                if isinstance(cur.func.value, ast.Name):
                    yield cur.func, "value", None  # the receiver, a plain name, is read before the arguments
                # leading arguments that are plain local names / constants are mere reads: the first argument that computes
                # something is what the call evaluates first
                k_ = 0
                while k_ + 1 < len(cur.args) and isinstance(cur.args[k_], (ast.Name, ast.Constant)) and not isinstance(cur.args[k_ + 1], ast.Starred):
                    k_ += 1
                owner, field, idx = cur, "args", (k_ if not isinstance(cur.args[k_], (ast.Name, ast.Constant)) else 0)
            elif isinstance(cur.func, ast.Attribute):
                owner, field, idx = cur.func, "value", None
            elif isinstance(cur.func, ast.Name) and cur.func.id == "cast" and len(cur.args) == 2 and not cur.keywords and _is_type_expression(cur.args[0]):
                owner, field, idx = cur, "args", 1  # typing.cast(<type expression>, VALUE): the value is what is computed first
            elif isinstance(cur.func, ast.Name):
                yield cur, "func", None
                if cur.args and not isinstance(cur.args[0], ast.Starred):
                    owner, field, idx = cur, "args", 0
                else:
                    return
            else:
                return
        elif isinstance(cur, (ast.Tuple, ast.List)) and cur.elts:
            owner, field, idx = cur, "elts", 0
        elif isinstance(cur, (ast.ListComp, ast.SetComp, ast.GeneratorExp, ast.DictComp)) and cur.generators and not cur.generators[0].is_async:
            # the iterable of the first `for` is evaluated first (for a generator expression: when the expression is created)
            owner, field, idx = cur.generators[0], "iter", None
        else:
            return
        e = getattr(owner, field)
        if idx is not None:
            e = e[idx]


def _get_slot(owner, field, idx):
    v = getattr(owner, field)
    return v[idx] if idx is not None else v


def _set_slot(owner, field, idx, new) -> None:
    if idx is not None:
        getattr(owner, field)[idx] = new
    else:
        setattr(owner, field, new)


def _each_store_feeds_next(body: list[ast.stmt], name: str, blocks) -> bool:
    """Every binding of `name` is a plain assignment whose only use is in the statement right after it."""
    loads, stores = _name_uses(body, name)
    used: set[int] = set()
    for st in stores:
        if not isinstance(st, ast.Name):
            return False
        nxt = None
        for blk in blocks(body):
            for i, x in enumerate(blk):
                tgt = x.targets[0] if isinstance(x, ast.Assign) and len(x.targets) == 1 else (x.target if isinstance(x, ast.AnnAssign) and x.value is not None else None)
                if tgt is st and i + 1 < len(blk):
                    nxt = blk[i + 1]
        if nxt is None:
            return False
        here = [n for n in ast.walk(nxt) if isinstance(n, ast.Name) and n.id == name and isinstance(n.ctx, ast.Load)]
        if len(here) != 1:
            return False
        used.add(id(here[0]))
    return len(used) == len(loads) and all(id(ld) in used for ld in loads)


def _root_name(e: ast.AST) -> str | None:
    while isinstance(e, ast.Attribute):
        e = e.value
    return e.id if isinstance(e, ast.Name) else None


def _namedtuple_fields(mod_tree: ast.Module, name: str) -> list[str] | None:
    for st in mod_tree.body:
        if isinstance(st, ast.ClassDef) and st.name == name and any((dotted(b) or "").endswith("NamedTuple") for b in st.bases):
            return [x.target.id for x in st.body if isinstance(x, ast.AnnAssign) and isinstance(x.target, ast.Name)]
    return None


def _tuple_elements(mod_tree: ast.Module, value: ast.AST | None, depth: int = 2) -> list[ast.expr] | None:
    """Element expressions of a tuple-valued expression: a display without stars, `NT(a, b, c)` / `NT(x=a, ...)` for a
    NamedTuple class of the module, `NT.of(e)` where `of` is a class / static method whose body is `return cls(...)`."""
    if value is None or depth < 0:
        return None
    if isinstance(value, ast.Tuple):
        return None if any(isinstance(e, ast.Starred) for e in value.elts) else list(value.elts)
    if not isinstance(value, ast.Call) or any(isinstance(a, ast.Starred) for a in value.args) or any(k.arg is None for k in value.keywords):
        return None
    if isinstance(value.func, ast.Name):
        fields = _namedtuple_fields(mod_tree, value.func.id)
        if fields is None or len(value.args) + len(value.keywords) != len(fields):
            return None
        got: dict[str, ast.expr] = dict(zip(fields, value.args))
        for k in value.keywords:
            if k.arg not in fields or k.arg in got:
                return None
            got[k.arg] = k.value  # type: ignore[index]
        return [got[f] for f in fields]
    if isinstance(value.func, ast.Attribute) and isinstance(value.func.value, ast.Name) and _namedtuple_fields(mod_tree, value.func.value.id) is not None and not value.keywords:
        cls_name = value.func.value.id
        cdef = next(st for st in mod_tree.body if isinstance(st, ast.ClassDef) and st.name == cls_name)
        m = next((x for x in cdef.body if isinstance(x, ast.FunctionDef) and x.name == value.func.attr), None)
        if m is None:
            return None
        decos = {dotted(d) for d in m.decorator_list}
        a = m.args
        pos = [p.arg for p in a.posonlyargs + a.args]
        if a.vararg or a.kwarg or a.kwonlyargs or a.defaults or not decos <= {"classmethod", "staticmethod"} or not decos:
            return None
        own = pos[1:] if "classmethod" in decos else pos
        clsname_in = pos[0] if "classmethod" in decos else None
        body_ = [x for x in m.body if not (isinstance(x, ast.Expr) and isinstance(x.value, ast.Constant))]
        if len(body_) != 1 or not isinstance(body_[0], ast.Return) or len(own) != len(value.args) or not all(_is_simple(x) for x in value.args):
            return None
        mapping = dict(zip(own, value.args))
        ret = _subst_expr(body_[0].value, mapping) if body_[0].value is not None else None
        if isinstance(ret, ast.Call) and isinstance(ret.func, ast.Name) and ret.func.id == clsname_in:
            ret.func = ast.Name(id=cls_name, ctx=ast.Load())
        return _tuple_elements(mod_tree, ret, depth - 1)
    return None


def _split_packed_tuples(fi: FunctionInfo, body: list[ast.stmt], log: list[str], params: set[str]) -> bool:
    mod_tree = fi.module.tree
    changed = False

    def blocks(stmts: list[ast.stmt]):
        yield stmts
        for s in stmts:
            if isinstance(s, (ast.FunctionDef, ast.AsyncFunctionDef, ast.ClassDef)):
                continue
            for f in ("body", "orelse", "finalbody"):
                sub = getattr(s, f, None)
                if isinstance(sub, list) and sub and isinstance(sub[0], ast.stmt):
                    yield from blocks(sub)
            if isinstance(s, ast.Try):
                for h in s.handlers:
                    yield from blocks(h.body)
            if isinstance(s, ast.Match):
                for c in s.cases:
                    yield from blocks(c.body)

    # unpacking of a construction: `a, b, c = NT.of(e)` -> a = ..; b = ..; c = ..   (when no element reads a target)
    for block in blocks(body):
        for i, st in enumerate(list(block)):
            if isinstance(st, ast.Assign) and len(st.targets) == 1 and isinstance(st.targets[0], ast.Tuple) and all(isinstance(t, ast.Name) for t in st.targets[0].elts) and not isinstance(st.value, ast.Tuple):
                elts = _tuple_elements(mod_tree, st.value)
                names = [t.id for t in st.targets[0].elts]  # type: ignore[union-attr]
                if elts is None or len(elts) != len(names):
                    continue
                if any(isinstance(n, ast.Name) and n.id in names for e in elts for n in ast.walk(e)):
                    continue
                k = block.index(st)
                block[k : k + 1] = [ast.fix_missing_locations(ast.copy_location(ast.Assign(targets=[ast.Name(id=n_, ctx=ast.Store())], value=clone(e)), st)) for n_, e in zip(names, elts)]
                log.append(f"{fi.short}: unpacking of a tuple built on the spot read element by element")
                changed = True

    cands: dict[str, list[tuple[list[ast.stmt], ast.stmt, list[ast.expr]]]] = {}
    bad: set[str] = set()
    for block in blocks(body):
        for st in block:
            tgt = st.targets[0] if isinstance(st, ast.Assign) and len(st.targets) == 1 else (st.target if isinstance(st, ast.AnnAssign) and st.value is not None else None)
            if isinstance(tgt, ast.Name) and tgt.id not in params:
                elts = _tuple_elements(mod_tree, st.value)  # type: ignore[union-attr]
                if elts is None:
                    bad.add(tgt.id)
                else:
                    cands.setdefault(tgt.id, []).append((block, st, elts))
    for name, stores_ in cands.items():
        if name in bad or name.startswith("__ret_h"):
            continue
        n = len(stores_[0][2])
        if n == 0 or any(len(e) != n for _b, _s, e in stores_):
            continue
        loads, stores = _name_uses(body, name)
        if len(stores) != len(stores_):
            continue
        if any(isinstance(x, ast.Name) and x.id == name for _b, _s, es in stores_ for e in es for x in ast.walk(e)):
            continue
        # a name read inside closures is split only when it is bound once (what the closure sees never changes) and no closure
        # re-binds or shadows it
        in_closures = [nd for st in body for nd in ast.walk(st) if isinstance(nd, (ast.FunctionDef, ast.AsyncFunctionDef, ast.Lambda)) and any(isinstance(x, ast.Name) and x.id == name for x in ast.walk(nd))]
        if in_closures and (len(stores_) != 1 or any(name in {a.arg for a in ast.walk(nd.args) if isinstance(a, ast.arg)} for nd in in_closures)):
            continue
        fields = None
        v0 = stores_[0][1].value  # type: ignore[union-attr]
        if isinstance(v0, ast.Call):
            cn = v0.func.id if isinstance(v0.func, ast.Name) else (v0.func.value.id if isinstance(v0.func, ast.Attribute) and isinstance(v0.func.value, ast.Name) else None)
            fields = _namedtuple_fields(mod_tree, cn) if cn else None
        # every load: `*t` in a call, `t[<const>]`, `t.<field>`
        uses: list[tuple[str, ast.AST, ast.AST, int]] = []
        ok = True
        parent_of: dict[int, ast.AST] = {}
        for st in body:
            for nd in ast.walk(st):
                for ch in ast.iter_child_nodes(nd):
                    parent_of[id(ch)] = nd
        for ld in loads:
            p_ = parent_of.get(id(ld))
            pp = parent_of.get(id(p_)) if p_ is not None else None
            if isinstance(p_, ast.Starred) and isinstance(pp, ast.Call) and any(a is p_ for a in pp.args):
                uses.append(("star", p_, pp, 0))
            elif isinstance(p_, ast.Subscript) and p_.value is ld and isinstance(p_.slice, ast.Constant) and isinstance(p_.slice.value, int) and 0 <= p_.slice.value < n and isinstance(p_.ctx, ast.Load):
                uses.append(("index", p_, pp, p_.slice.value))
            elif isinstance(p_, ast.Attribute) and p_.value is ld and fields and p_.attr in fields and isinstance(p_.ctx, ast.Load):
                uses.append(("index", p_, pp, fields.index(p_.attr)))
            else:
                ok = False
                break
        if not ok or not uses:
            continue
        part = [f"{name}__{i}" for i in range(n)]
        # the tuple starts as the function's own parameters (`info = (exc_type, exc_val, exc_tb)`) which nothing else reads or
        # re-binds: the elements are those parameters, re-bound where the tuple is
        first_block, first_st, first_elts = stores_[0]
        reuse = first_block is body and all(isinstance(e, ast.Name) and e.id in params for e in first_elts) and len({e.id for e in first_elts}) == n  # type: ignore[union-attr]
        if reuse:
            pnames = [e.id for e in first_elts]  # type: ignore[union-attr]
            first_idx = next(j for j, x in enumerate(body) if x is first_st)
            for pn in pnames:
                lds_, sts_ = _name_uses(body, pn)
                if sts_ or any(not any(ld is x for x in ast.walk(first_st)) for ld in lds_):
                    reuse = False
            if any(isinstance(x, ast.Name) and x.id == name for st_ in body[:first_idx] for x in ast.walk(st_)):
                reuse = False
        if reuse:
            part = pnames
        for kind, node, par, idx in uses:
            if kind == "star":
                new_args: list[ast.expr] = []
                for a in par.args:  # type: ignore[union-attr]
                    if a is node:
                        new_args.extend(ast.copy_location(ast.Name(id=pn, ctx=ast.Load()), a) for pn in part)
                    else:
                        new_args.append(a)
                par.args = new_args  # type: ignore[union-attr]
            else:
                repl = ast.copy_location(ast.Name(id=part[idx], ctx=ast.Load()), node)
                for f_, v_ in ast.iter_fields(par):  # type: ignore[arg-type]
                    if v_ is node:
                        setattr(par, f_, repl)
                    elif isinstance(v_, list):
                        for j, x in enumerate(v_):
                            if x is node:
                                v_[j] = repl
        for block, st, elts in stores_:
            k = next(j for j, x in enumerate(block) if x is st)
            if reuse and st is first_st:
                block[k : k + 1] = [ast.copy_location(ast.Pass(), st)]
                continue
            block[k : k + 1] = [ast.fix_missing_locations(ast.copy_location(ast.Assign(targets=[ast.Name(id=pn, ctx=ast.Store())], value=clone(e)), st)) for pn, e in zip(part, elts)]
        log.append(f"{fi.short}: packed tuple `{name}` read as its {n} elements")
        changed = True
    return changed


def simplify_locals(fi: FunctionInfo, body: list[ast.stmt], log: list[str]) -> bool:
    """(a) bound-method aliases `f = obj.method` used only as `f(...)` are substituted;
    (b) a single-assignment local used exactly once, first thing in the next statement, is
    forward-substituted (`ok = a < b and c(); if not ok:` -> `if not (a < b and c()):`)."""
    params = set(fi.param_names())
    changed = False

    def blocks(stmts: list[ast.stmt]):
        yield stmts
        for s in stmts:
            if isinstance(s, (ast.FunctionDef, ast.AsyncFunctionDef, ast.ClassDef)):
                continue
            for f in ("body", "orelse", "finalbody"):
                sub = getattr(s, f, None)
                if isinstance(sub, list) and sub and isinstance(sub[0], ast.stmt):
                    yield from blocks(sub)
            if isinstance(s, ast.Try):
                for h in s.handlers:
                    yield from blocks(h.body)
            if isinstance(s, ast.Match):
                for c in s.cases:
                    yield from blocks(c.body)

    # (h) a fixed-size tuple (display, or a NamedTuple of this module built on the spot) kept in a local only to be spread or
    #     indexed again - the exception triple carried as one value - is read as its elements: `t = (a, b, c)` ... `f(*t)` ->
    #     `t__0 = a; t__1 = b; t__2 = c` ... `f(t__0, t__1, t__2)`; an unpacking of such a construction is read as the
    #     element-wise assignments
    if _split_packed_tuples(fi, body, log, params):
        changed = True

    # (g) an attribute alias bound inside an `if` test (`if (d := self._disposables) is not None:`): bound in a statement
    #     of its own in front of the `if` - the walrus sits on the left spine of the test, so it is evaluated first and
    #     unconditionally; (c) then reads the attribute through its owner again
    hoisting = True
    while hoisting:
        hoisting = False
        for block in blocks(body):
            for i, s1 in enumerate(block):
                if not isinstance(s1, ast.If):
                    continue
                for owner, field, idx in _spine_positions(s1, "test"):
                    w = _get_slot(owner, field, idx)
                    if not isinstance(w, ast.NamedExpr):
                        continue
                    v = w.value
                    if w.target.id in params or not (isinstance(v, ast.Attribute) and _is_simple(v) and _root_name(v) in params):
                        break
                    if len(_name_uses(body, w.target.id)[1]) != 1:
                        break
                    _set_slot(owner, field, idx, ast.copy_location(ast.Name(id=w.target.id, ctx=ast.Load()), w))
                    block.insert(i, ast.fix_missing_locations(ast.copy_location(ast.Assign(targets=[ast.Name(id=w.target.id, ctx=ast.Store())], value=v), s1)))
                    log.append(f"{fi.short}: attribute alias `{w.target.id}` bound in an `if` test moved in front of it")
                    changed = hoisting = True
                    break
                if hoisting:
                    break
            if hoisting:
                break

    again = True
    while again:
        again = False
        for block in blocks(body):
            for i, s1 in enumerate(block):
                if not isinstance(s1, (ast.Assign, ast.AnnAssign)) or s1.value is None:
                    continue
                tgt = s1.targets[0] if isinstance(s1, ast.Assign) and len(s1.targets) == 1 else (s1.target if isinstance(s1, ast.AnnAssign) else None)
                if not isinstance(tgt, ast.Name) or tgt.id in params or tgt.id.startswith("__ret_h"):
                    continue
                name = tgt.id
                loads, stores = _name_uses(body, name)
                if len(stores) != 1 and len(stores) != len(loads):
                    continue
                multi = len(stores) != 1
                if multi and not _each_store_feeds_next(body, name, blocks):
                    continue  # several definitions that are not all "define, use once in the very next statement"
                # (f) a bound method kept in a local and called from the function's closures (`future_done = future.done` ...
                #     `if future_done():` inside a callback): called through the object again - the receiver is held in a local
                #     of its own when it is not a plain name
                if not multi and isinstance(s1.value, ast.Attribute) and loads and block is body:
                    all_calls = [c for st in body for c in ast.walk(st) if isinstance(c, ast.Call) and isinstance(c.func, ast.Name) and c.func.id == name]
                    in_closure = any(isinstance(n, (ast.FunctionDef, ast.AsyncFunctionDef, ast.Lambda)) and any(isinstance(x, ast.Name) and x.id == name for x in ast.walk(n)) for st in body for n in ast.walk(st))
                    recv = s1.value.value
                    if in_closure and len(all_calls) == len(loads) and not any(isinstance(x, (ast.Await, ast.Yield, ast.YieldFrom)) for x in ast.walk(recv)):
                        recv_name = recv.id if isinstance(recv, ast.Name) else f"{name}__recv"
                        # the receiver's name must mean the same object wherever the alias is called
                        shadowed = any(isinstance(n, (ast.FunctionDef, ast.AsyncFunctionDef, ast.Lambda)) and any(isinstance(x, ast.Name) and x.id == name for x in ast.walk(n)) and (recv_name in {a.arg for a in n.args.posonlyargs + n.args.args + n.args.kwonlyargs} or any(isinstance(x, ast.Name) and x.id == recv_name and isinstance(x.ctx, ast.Store) for x in ast.walk(n))) for st in body for n in ast.walk(st))
                        rebound = len(_name_uses(body, recv_name)[1]) > (0 if recv_name in params else 1) if isinstance(recv, ast.Name) else False
                        if not shadowed and not rebound:
                            attr_ = s1.value.attr
                            for c in all_calls:
                                c.func = ast.copy_location(ast.Attribute(value=ast.Name(id=recv_name, ctx=ast.Load()), attr=attr_, ctx=ast.Load()), c.func)
                            if isinstance(recv, ast.Name):
                                block[i] = ast.copy_location(ast.Pass(), s1)
                            else:
                                block[i] = ast.copy_location(ast.Assign(targets=[ast.Name(id=recv_name, ctx=ast.Store())], value=recv), s1)
                            for st in body:
                                ast.fix_missing_locations(st)
                            log.append(f"{fi.short}: bound method `{name}` called through its receiver again")
                            changed = again = True
                            break
                # (i) a copy of a parameter that is never re-bound (`first = exc_type`, `plain = cast(T, function)`): read as the
                #     parameter - also inside the function's closures when none of them binds either name
                src_ = s1.value
                if isinstance(src_, ast.Call) and isinstance(src_.func, ast.Name) and src_.func.id == "cast" and len(src_.args) == 2 and not src_.keywords and _is_type_expression(src_.args[0]):
                    src_ = src_.args[1]
                if not multi and isinstance(src_, ast.Name) and src_.id in params and loads and not _name_uses(body, src_.id)[1]:
                    nested_binders = [nd for st in body for nd in ast.walk(st) if isinstance(nd, (ast.FunctionDef, ast.AsyncFunctionDef, ast.Lambda))]
                    clash = any(a.arg in (name, src_.id) for nd in nested_binders for a in ast.walk(nd.args) if isinstance(a, ast.arg)) or any(isinstance(x, ast.Name) and x.id in (name, src_.id) and not isinstance(x.ctx, ast.Load) for nd in nested_binders for x in ast.walk(nd))
                    if not clash:
                        pname_ = src_.id

                        class _Copy(ast.NodeTransformer):
                            def visit_Name(self, n: ast.Name):  # noqa: N802
                                if n.id == name and isinstance(n.ctx, ast.Load):
                                    return ast.copy_location(ast.Name(id=pname_, ctx=ast.Load()), n)
                                return n

                        for bi, st in enumerate(body):
                            body[bi] = _Copy().visit(st)
                        for blk in blocks(body):
                            for bj, st in enumerate(blk):
                                if st is s1:
                                    blk[bj] = ast.copy_location(ast.Pass(), s1)
                        log.append(f"{fi.short}: copy `{name}` of the parameter `{pname_}` read as the parameter")
                        changed = again = True
                        break
                # closures reading the name keep it alive
                if any(isinstance(n, (ast.FunctionDef, ast.AsyncFunctionDef, ast.Lambda)) and any(isinstance(x, ast.Name) and x.id == name for x in ast.walk(n)) for st in body for n in ast.walk(st)):
                    continue
                value = s1.value
                # (d) a local lambda that is only ever applied: `spawn = lambda: EXPR` ... `spawn()` -> EXPR
                if not multi and isinstance(value, ast.Lambda) and loads:
                    la = value.args
                    lparams = [a.arg for a in la.posonlyargs + la.args]
                    plain = not (la.vararg or la.kwarg or la.kwonlyargs or la.defaults or la.kw_defaults)
                    calls = [c for st in body for c in ast.walk(st) if isinstance(c, ast.Call) and isinstance(c.func, ast.Name) and c.func.id == name]
                    applied = plain and len(calls) == len(loads) and all(len(c.args) == len(lparams) and not c.keywords and all(_is_simple(a) and not isinstance(a, ast.Starred) for a in c.args) for c in calls)
                    free = {n.id for n in ast.walk(value.body) if isinstance(n, ast.Name)} - set(lparams)
                    stable = all(len(_name_uses(body, fr)[1]) <= (0 if fr in params else 1) for fr in free)
                    if applied and stable:
                        lam = value

                        class _Beta(ast.NodeTransformer):
                            def visit_Call(self, c: ast.Call):  # noqa: N802
                                self.generic_visit(c)
                                if isinstance(c.func, ast.Name) and c.func.id == name:
                                    return ast.copy_location(_subst_expr(lam.body, dict(zip(lparams, c.args))), c)
                                return c

                        for blk in blocks(body):
                            for bj, st in enumerate(blk):
                                if st is s1:
                                    blk[bj] = ast.copy_location(ast.Pass(), s1)
                        for bi, st in enumerate(body):
                            body[bi] = ast.fix_missing_locations(_Beta().visit(st))
                        log.append(f"{fi.short}: applied local lambda `{name}` at its call site(s)")
                        changed = again = True
                        break
                # (e) a tuple assembled only to be spread into calls: `packed = (first, *rest)` ... `f(*packed)` -> `f(first, *rest)`
                if not multi and isinstance(value, (ast.Tuple, ast.List)) and loads and all(_is_simple(x.value if isinstance(x, ast.Starred) else x) for x in value.elts):
                    starred = [x for st in body for c in ast.walk(st) if isinstance(c, ast.Call) for x in c.args if isinstance(x, ast.Starred) and isinstance(x.value, ast.Name) and x.value.id == name]
                    free = {n.id for x in value.elts for n in ast.walk(x) if isinstance(n, ast.Name)}
                    stable = all(len(_name_uses(body, fr)[1]) <= (0 if fr in params else 1) for fr in free)
                    if len(starred) == len(loads) and stable:
                        for st in body:
                            for c in ast.walk(st):
                                if isinstance(c, ast.Call) and any(x in starred for x in c.args):
                                    new_args: list[ast.expr] = []
                                    for x in c.args:
                                        if any(x is y for y in starred):
                                            new_args.extend(clone(el) for el in value.elts)
                                        else:
                                            new_args.append(x)
                                    c.args = new_args
                        for blk in blocks(body):
                            for bj, st in enumerate(blk):
                                if st is s1:
                                    blk[bj] = ast.copy_location(ast.Pass(), s1)
                        for st in body:
                            ast.fix_missing_locations(st)
                        log.append(f"{fi.short}: spread the packed arguments `{name}` at the call(s) they are unpacked into")
                        changed = again = True
                        break
                # (a) bound-method alias
                if not multi and isinstance(value, ast.Attribute) and loads:
                    call_funcs = [c.func for st in body for c in ast.walk(st) if isinstance(c, ast.Call)]
                    if all(any(ld is f for f in call_funcs) for ld in loads):
                        for st in body:
                            for c in ast.walk(st):
                                if isinstance(c, ast.Call) and isinstance(c.func, ast.Name) and c.func.id == name:
                                    c.func = ast.copy_location(clone(value), c.func)
                        block[i] = ast.copy_location(ast.Pass(), s1)
                        log.append(f"{fi.short}: substituted bound-method alias `{name}`")
                        changed = again = True
                        break
                # (c) alias of an attribute that this function never re-binds: `group = self._group` ... `group.x()` -> `self._group.x()`
                if not multi and loads and isinstance(value, ast.Attribute) and _is_simple(value) and isinstance(_root_name(value), str) and _root_name(value) in params:
                    chain = dotted(value)
                    rebinds = any(
                        isinstance(n, (ast.Assign, ast.AugAssign, ast.AnnAssign, ast.Delete)) and any(dotted(t) is not None and (dotted(t) == chain or chain.startswith(dotted(t) + ".")) for t in (n.targets if isinstance(n, (ast.Assign, ast.Delete)) else [n.target]) for t in ([t] if not isinstance(t, (ast.Tuple, ast.List)) else t.elts))
                        for st in body
                        for n in ast.walk(st)
                    )
                    root_rebound = any(isinstance(n, ast.Name) and n.id == _root_name(value) and isinstance(n.ctx, ast.Store) for st in body for n in ast.walk(st))
                    if chain and not rebinds and not root_rebound:

                        class _Sub(ast.NodeTransformer):
                            def visit_Name(self, n: ast.Name):  # noqa: N802
                                if n.id == name and isinstance(n.ctx, ast.Load):
                                    return ast.copy_location(clone(value), n)
                                return n

                        for bi, st in enumerate(body):
                            body[bi] = _Sub().visit(st)
                        for blk in blocks(body):
                            for bj, st in enumerate(blk):
                                if st is s1:
                                    blk[bj] = ast.copy_location(ast.Pass(), s1)
                        log.append(f"{fi.short}: substituted attribute alias `{name}` = {chain}")
                        changed = again = True
                        break
                # (b) forward substitution into the next statement
                if (len(loads) == 1 or multi) and i + 1 < len(block) and not any(isinstance(x, (ast.Await, ast.Yield, ast.YieldFrom)) for x in ast.walk(value)):
                    s2 = block[i + 1]
                    slot = _left_spine_slot(s2)
                    if slot is None:
                        continue
                    in_s2 = [n for n in ast.walk(s2) if isinstance(n, ast.Name) and n.id == name and isinstance(n.ctx, ast.Load)]
                    if len(in_s2) != 1:
                        continue
                    for owner, field, idx in _spine_positions(*slot):
                        if _get_slot(owner, field, idx) is in_s2[0]:
                            _set_slot(owner, field, idx, ast.copy_location(clone(value), in_s2[0]))
                            del block[i]
                            log.append(f"{fi.short}: forward-substituted `{name}`")
                            changed = again = True
                            break
                    if again:
                        break
            if again:
                break
    return changed


def flatten_program(prog: Program) -> tuple[dict[str, list[ast.stmt]], Inliner]:
    """New bodies for every function that had something inlined (keyed by qualname)."""
    inl = Inliner(prog)
    new_bodies: dict[str, list[ast.stmt]] = {}
    for q, fi in list(prog.functions.items()):
        before = len(inl.log)
        body = inl.flatten_function(fi)
        if simplify_locals(fi, body, inl.log):
            for st in body:
                ast.fix_missing_locations(st)
        if len(inl.log) > before:
            new_bodies[q] = body
    return new_bodies, inl


# ---------------------------------------------------------------------------------------------- definitional unfolding
MISSING_MOD = "haiway.types.missing"


def unfold_missing_predicates(prog: Program) -> list[str]:
    """is_missing(x) -> x is MISSING;  not_missing(x) -> x is not MISSING;  when_missing(x, value=y) -> (y if x is MISSING else x)
    everywhere outside haiway.types.missing, for simple x.  The three predicates are *defined* as these identity tests and
    C20.4 verifies the definitions on every run, so rules stated over `is MISSING` see through them."""
    log: list[str] = []
    for mod in prog.modules.values():
        if mod.name == MISSING_MOD:
            continue
        names = {local: full.rsplit(".", 1)[-1] for local, full in mod.imports.items() if full.rsplit(".", 1)[-1] in ("is_missing", "not_missing", "when_missing") and ("types.missing" in full or full.startswith("haiway.types") or full.startswith("haiway."))}
        if not names:
            continue
        missing_name = next((local for local, full in mod.imports.items() if full.rsplit(".", 1)[-1] == "MISSING"), None)
        count = 0

        class T(ast.NodeTransformer):
            def visit_Call(self, n: ast.Call):  # noqa: N802
                nonlocal count, missing_name
                self.generic_visit(n)
                if not (isinstance(n.func, ast.Name) and n.func.id in names) or not n.args or not _is_simple(n.args[0]) or isinstance(n.args[0], ast.Starred):
                    return n
                kind = names[n.func.id]
                if missing_name is None:
                    missing_name = "MISSING"
                    mod.extra_imports["MISSING"] = MISSING_MOD + ".MISSING"
                    mod.imports.setdefault("MISSING", MISSING_MOD + ".MISSING")
                const = ast.Name(id=missing_name, ctx=ast.Load())
                x = n.args[0]
                if kind in ("is_missing", "not_missing") and len(n.args) == 1 and not n.keywords:
                    new: ast.AST = ast.Compare(left=clone(x), ops=[ast.Is() if kind == "is_missing" else ast.IsNot()], comparators=[const])
                elif kind == "when_missing":
                    y = n.args[1] if len(n.args) == 2 and not n.keywords else (n.keywords[0].value if len(n.args) == 1 and len(n.keywords) == 1 and n.keywords[0].arg == "value" else None)
                    if y is None:
                        return n
                    new = ast.IfExp(test=ast.Compare(left=clone(x), ops=[ast.Is()], comparators=[const]), body=y, orelse=clone(x))
                else:
                    return n
                count += 1
                return ast.fix_missing_locations(ast.copy_location(new, n))

        mod.tree = T().visit(mod.tree)
        if count:
            log.append(f"{mod.name}: {count} missing-predicate call(s) unfolded")
    return log


# ---------------------------------------------------------------------------------------------- conditional returns
def _is_bool_test(e: ast.AST) -> bool:
    """An expression that evaluates to exactly True / False (so `e and rest` is `rest if e else False`)."""
    if isinstance(e, ast.Call) and isinstance(e.func, ast.Name) and e.func.id in ("isinstance", "issubclass", "callable", "hasattr"):
        return True
    if isinstance(e, ast.Compare) and all(isinstance(o, (ast.Is, ast.IsNot)) for o in e.ops):
        return True
    if isinstance(e, ast.UnaryOp) and isinstance(e.op, ast.Not):
        return True
    return False


def split_conditional_returns(prog: Program) -> list[str]:
    """`return a if t else b`  ->  `if t: return a  else: return b`  (the branch taken becomes control flow that the
    CFG / scenario machinery sees; the expression form and the statement form are the same program)."""
    log: list[str] = []

    class T(ast.NodeTransformer):
        count = 0

        def visit_Return(self, n: ast.Return):  # noqa: N802
            v = n.value
            casts = []
            while isinstance(v, ast.Call) and isinstance(v.func, ast.Name) and v.func.id == "cast" and len(v.args) == 2:
                casts.append(v)
                v = v.args[1]
            if isinstance(v, ast.BoolOp) and isinstance(v.op, ast.And) and len(v.values) >= 2 and _is_bool_test(v.values[0]) and not casts:
                # `return isinstance(..) and rest`  ->  `if isinstance(..): return rest  else: return False`
                T.count += 1
                rest = v.values[1] if len(v.values) == 2 else ast.BoolOp(op=ast.And(), values=v.values[1:])
                new = ast.If(
                    test=v.values[0],
                    body=[self.visit_Return(ast.copy_location(ast.Return(value=rest), n))],
                    orelse=[ast.copy_location(ast.Return(value=ast.Constant(value=False)), n)],
                )
                return ast.fix_missing_locations(ast.copy_location(new, n))
            if not isinstance(v, ast.IfExp):
                return n
            T.count += 1

            def wrap(x: ast.AST) -> ast.AST:
                for c in reversed(casts):
                    x = ast.Call(func=clone(c.func), args=[clone(c.args[0]), x], keywords=[])
                return x

            new = ast.If(
                test=v.test,
                body=[self.visit_Return(ast.copy_location(ast.Return(value=wrap(v.body)), n))],
                orelse=[self.visit_Return(ast.copy_location(ast.Return(value=wrap(v.orelse)), n))],
            )
            # nested visit may return an If
            new.body = [x for x in new.body]
            return ast.fix_missing_locations(ast.copy_location(new, n))

    for mod in prog.modules.values():
        before = T.count
        mod.tree = T().visit(mod.tree)
        if T.count > before:
            log.append(f"{mod.name}: {T.count - before} conditional return(s) split")
    return log


# ---------------------------------------------------------------------------------------------- the two CancelledError classes
FOREIGN_CANCELLED = "FuturesCancelledError"


def distinguish_cancelled_errors(prog: Program) -> list[str]:
    """asyncio.CancelledError (a BaseException: what Task.cancel() throws) and concurrent.futures.CancelledError (an
    Exception since 3.8) are different classes with the same name.  Every analysis names exception classes by their
    last component, so a reference that does not resolve to asyncio's class is renamed to FuturesCancelledError
    (hwverif.cfg knows it as an Exception); an alias of asyncio's class is renamed to CancelledError."""
    log: list[str] = []
    for mod in prog.modules.values():
        ren: dict[str, str] = {}
        for node in ast.walk(mod.tree):
            if isinstance(node, ast.ImportFrom) and not node.level:
                for alias in node.names:
                    if alias.name != "CancelledError":
                        continue
                    local = alias.asname or alias.name
                    own = (node.module or "").split(".")[0] == "asyncio"
                    if own and local != "CancelledError":
                        ren[local] = "CancelledError"
                        alias.asname = None
                    elif not own:
                        ren[local] = FOREIGN_CANCELLED
                        alias.name, alias.asname = FOREIGN_CANCELLED, None
        count = 0
        for node in ast.walk(mod.tree):
            if isinstance(node, ast.Name) and node.id in ren:
                node.id = ren[node.id]
                count += 1
            elif isinstance(node, ast.Attribute) and node.attr == "CancelledError":
                root = node.value
                while isinstance(root, ast.Attribute):
                    root = root.value
                if isinstance(root, ast.Name) and root.id in mod.imports and mod.imports[root.id].split(".")[0] != "asyncio":
                    node.attr = FOREIGN_CANCELLED
                    count += 1
        if count:
            log.append(f"{mod.name}: {count} reference(s) to a CancelledError class renamed by the class they resolve to")
    return log


# ---------------------------------------------------------------------------------------------- module-level partial application
def specialise_module_closures(prog: Program) -> list[str]:
    """`NAME = maker(<constants / globals>)` at module level, where `maker` is a module function whose whole body is
    one nested function and `return <that function>`, is replaced by `def NAME(<the nested function's parameters>)`
    with the maker's parameters substituted: the function the assignment binds, written out.  Rule tables that name
    functions (validator factories, callbacks) then find a function again."""
    log: list[str] = []
    for mod in prog.modules.values():
        makers: dict[str, ast.FunctionDef] = {s.name: s for s in mod.tree.body if isinstance(s, ast.FunctionDef)}
        new_body: list[ast.stmt] = []
        changed = 0
        for st in mod.tree.body:
            tgt = st.target if isinstance(st, ast.AnnAssign) else (st.targets[0] if isinstance(st, ast.Assign) and len(st.targets) == 1 else None)
            val = getattr(st, "value", None)
            made = _specialised(makers, tgt, val) if isinstance(tgt, ast.Name) and isinstance(val, ast.Call) else None
            if made is None and isinstance(tgt, ast.Name) and isinstance(val, ast.Dict):
                # a registry display whose values are made on the spot: `{Missing: make_validator_factory(MISSING), ...}` - each
                # such value is written out as a function of its own (named after the registry key's role when the tables know
                # it) and the display refers to it by name
                taken = {s.name for s in mod.tree.body if isinstance(s, (ast.FunctionDef, ast.AsyncFunctionDef, ast.ClassDef))} | {n.id for s in mod.tree.body for n in ast.walk(s) if isinstance(n, ast.Name) and isinstance(n.ctx, ast.Store)}
                for i_, (k_, v_) in enumerate(zip(val.keys, val.values)):
                    if k_ is None or not isinstance(v_, ast.Call):
                        continue
                    kname = k_.id if isinstance(k_, ast.Name) else (k_.attr if isinstance(k_, ast.Attribute) else None)
                    wanted = _VALIDATOR_KEYS.get(kname or "") if tgt.id == "VALIDATORS" else None
                    fname = wanted if wanted and wanted not in taken else f"{getattr(v_.func, 'id', 'made')}__{kname or i_}"
                    if fname in taken:
                        continue
                    spec = _specialised(makers, ast.Name(id=fname, ctx=ast.Store()), v_)
                    if spec is None:
                        continue
                    taken.add(fname)
                    new_body.append(ast.fix_missing_locations(ast.copy_location(spec, v_)))
                    val.values[i_] = ast.copy_location(ast.Name(id=fname, ctx=ast.Load()), v_)
                    changed += 1
            if made is None:
                new_body.append(st)
            else:
                new_body.append(ast.fix_missing_locations(ast.copy_location(made, st)))
                changed += 1
        if changed:
            mod.tree.body = new_body
            log.append(f"{mod.name}: {changed} module-level closure(s) written out as the function they bind")
    return log


def _specialised(makers: dict[str, ast.FunctionDef], tgt: ast.Name, call: ast.Call) -> ast.FunctionDef | None:
    if not (isinstance(call.func, ast.Name) and call.func.id in makers):
        return None
    mk = makers[call.func.id]
    body = [s for s in mk.body if not (isinstance(s, ast.Expr) and isinstance(s.value, ast.Constant) and isinstance(s.value.value, str))]
    if mk.decorator_list or len(body) != 2 or not isinstance(body[0], ast.FunctionDef) or not (isinstance(body[1], ast.Return) and isinstance(body[1].value, ast.Name) and body[1].value.id == body[0].name):
        return None
    inner = body[0]
    if inner.decorator_list or mk.args.vararg or mk.args.kwarg:
        return None
    simple = lambda e: isinstance(e, ast.Constant) or isinstance(e, ast.Name) or (isinstance(e, ast.Attribute) and dotted(e) is not None)  # noqa: E731
    pos = [a.arg for a in mk.args.posonlyargs + mk.args.args]
    bound: dict[str, ast.AST] = {}
    pd = mk.args.posonlyargs + mk.args.args
    for prm, dv in zip(pd[len(pd) - len(mk.args.defaults):], mk.args.defaults):
        bound[prm.arg] = dv
    for prm, dv in zip(mk.args.kwonlyargs, mk.args.kw_defaults):
        if dv is not None:
            bound[prm.arg] = dv
    if len(call.args) > len(pos) or any(isinstance(a, ast.Starred) for a in call.args) or any(k.arg is None for k in call.keywords):
        return None
    for i, a in enumerate(call.args):
        bound[pos[i]] = a
    for k in call.keywords:
        bound[k.arg] = k.value  # type: ignore[index]
    names = set(pos) | {a.arg for a in mk.args.kwonlyargs}
    if set(bound) != names or not all(simple(v) for v in bound.values()):
        return None
    # nothing inside may re-bind a maker parameter (a store, a parameter or a comprehension target of the same name)
    for n in ast.walk(inner):
        if isinstance(n, ast.Name) and not isinstance(n.ctx, ast.Load) and n.id in names:
            return None
        if isinstance(n, ast.arg) and n.arg in names:
            return None
        if isinstance(n, (ast.Nonlocal, ast.Global)):
            return None
    new = clone(inner)
    new.name = tgt.id

    class T(ast.NodeTransformer):
        def visit_Name(self, n: ast.Name):  # noqa: N802
            if n.id in bound and isinstance(n.ctx, ast.Load):
                return clone(bound[n.id])
            return n

    new.body = [T().visit(s) for s in new.body]
    return new


# ---------------------------------------------------------------------------------------------- roles of private module-level names
# Private functions / classes that rule tables address by name are found by the role they play for a public entry point
# (the wrapper factories a decorator dispatches to, the wrapper class it instantiates, the factory registered for a
# VALIDATORS key); when the name differs from the one the tables use, the module is analysed under the table's name.
_TWINS = {  # module -> (public decorator, name for the sync factory, name for the async factory, name of the wrapper they return)
    "haiway.helpers.retries": ("retry", "_wrap_sync", "_wrap_async", "wrapped"),
    "haiway.helpers.tracing": ("traced", "_traced_sync", "_traced_async", None),
}
_WRAPPER_CLASSES = {  # module -> (public decorator, {is-async of __call__: class name})
    "haiway.helpers.caching": ("cache", {False: "_SyncCache", True: "_AsyncCache"}),
    "haiway.helpers.throttling": ("throttle", {True: "_AsyncThrottle"}),
    "haiway.helpers.timeouted": ("timeout", {True: "_AsyncTimeout"}),
    "haiway.helpers.asynchrony": ("asynchronous", {True: "_ExecutorWrapper"}),
}
_INNER_DECORATOR = {  # module -> (public decorator, name of the nested function applied to the decorated function)
    "haiway.helpers.retries": ("retry", "_wrap"),
    "haiway.helpers.caching": ("cache", "_wrap"),
    "haiway.helpers.throttling": ("throttle", "_wrap"),
    "haiway.helpers.timeouted": ("timeout", "_wrap"),
    "haiway.helpers.asynchrony": ("asynchronous", "wrap"),
}
_VALIDATOR_KEYS = {
    "Any": "_prepare_validator_of_any", "NoneType": "_prepare_validator_of_none", "Missing": "_prepare_validator_of_missing", "type": "_prepare_validator_of_type",
    "tuple": "_prepare_validator_of_tuple", "frozenset": "_prepare_validator_of_set", "Set": "_prepare_validator_of_set", "Sequence": "_prepare_validator_of_sequence",
    "Mapping": "_prepare_validator_of_mapping", "Literal": "_prepare_validator_of_literal", "Union": "_prepare_validator_of_union", "UnionType": "_prepare_validator_of_union",
    "Callable": "_prepare_validator_of_callable",
}  # fmt: skip


def _impl(mod, name: str):
    """The implementation (last, non-overload) top-level definition of `name`."""
    found = None
    for s in mod.tree.body:
        if isinstance(s, (ast.FunctionDef, ast.AsyncFunctionDef, ast.ClassDef)) and s.name == name:
            found = s
    return found


def _returned_nested(fn: ast.FunctionDef):
    nested = {s.name: s for s in ast.walk(fn) if isinstance(s, (ast.FunctionDef, ast.AsyncFunctionDef)) and s is not fn}
    # `return wrapped` or `return mimic_function(function, within=wrapped)`: the nested function the result is made of
    rets = {x.id for r in ast.walk(fn) if isinstance(r, ast.Return) and r.value is not None for x in ast.walk(r.value) if isinstance(x, ast.Name) and x.id in nested and not any(r is y for nd in nested.values() for y in ast.walk(nd))}
    return [nested[n] for n in sorted(rets)]


def private_name_role_renames(prog: Program) -> list[str]:
    log: list[str] = []
    for mod in prog.modules.values():
        top = {s.name: s for s in mod.tree.body if isinstance(s, (ast.FunctionDef, ast.AsyncFunctionDef, ast.ClassDef))}
        ren: dict[str, str] = {}
        nested_ren: list[tuple[ast.AST, str, str]] = []
        if mod.name in _TWINS:
            pub_name, c_sync, c_async, c_inner = _TWINS[mod.name]
            pub = _impl(mod, pub_name)
            if pub is not None:
                called = {c.func.id for c in ast.walk(pub) if isinstance(c, ast.Call) and isinstance(c.func, ast.Name) and c.func.id.startswith("_") and isinstance(top.get(c.func.id), ast.FunctionDef)}
                kinds: dict[bool, list[str]] = {False: [], True: []}
                for n in called:
                    rn = _returned_nested(top[n])
                    if len(rn) == 1:
                        kinds[isinstance(rn[0], ast.AsyncFunctionDef)].append(n)
                for is_async, canon in ((False, c_sync), (True, c_async)):
                    if len(kinds[is_async]) == 1:
                        actual = kinds[is_async][0]
                        if actual != canon and canon not in top:
                            ren[actual] = canon
                        rn = _returned_nested(top[actual])
                        if c_inner is not None and rn[0].name != c_inner:
                            nested_ren.append((top[actual], rn[0].name, c_inner))
        if mod.name in _WRAPPER_CLASSES:
            pub_name, by_kind = _WRAPPER_CLASSES[mod.name]
            pub = _impl(mod, pub_name)
            if pub is not None:
                made = {c.func.id for c in ast.walk(pub) if isinstance(c, ast.Call) and isinstance(c.func, ast.Name) and c.func.id.startswith("_") and isinstance(top.get(c.func.id), ast.ClassDef)}
                kinds_c: dict[bool, list[str]] = {False: [], True: []}
                for n in made:
                    call_m = next((m for m in top[n].body if isinstance(m, (ast.FunctionDef, ast.AsyncFunctionDef)) and m.name == "__call__"), None)
                    if call_m is not None:
                        kinds_c[isinstance(call_m, ast.AsyncFunctionDef)].append(n)
                for is_async, canon in by_kind.items():
                    if len(kinds_c[is_async]) == 1 and kinds_c[is_async][0] != canon and canon not in top:
                        ren[kinds_c[is_async][0]] = canon
        if mod.name in _INNER_DECORATOR:
            pub_name, canon = _INNER_DECORATOR[mod.name]
            pub = _impl(mod, pub_name)
            if pub is not None:
                inner = [s for s in ast.walk(pub) if isinstance(s, (ast.FunctionDef, ast.AsyncFunctionDef)) and s is not pub]
                direct = [s for s in inner if not any(s is x for o in inner if o is not s for x in ast.walk(o))]
                if len(direct) == 1 and direct[0].name != canon:
                    nested_ren.append((pub, direct[0].name, canon))
        if mod.name == "haiway.state.validation":
            for st in mod.tree.body:
                tgt = st.target if isinstance(st, ast.AnnAssign) else (st.targets[0] if isinstance(st, ast.Assign) and len(st.targets) == 1 else None)
                if isinstance(tgt, ast.Name) and tgt.id == "VALIDATORS" and isinstance(getattr(st, "value", None), ast.Dict):
                    wanted: dict[str, set[str]] = {}
                    for k, v in zip(st.value.keys, st.value.values):
                        kn = (dotted(k) or "").rsplit(".", 1)[-1] if k is not None else ""
                        if kn in _VALIDATOR_KEYS and isinstance(v, ast.Name):
                            wanted.setdefault(v.id, set()).add(_VALIDATOR_KEYS[kn])
                    for actual, canons in wanted.items():
                        if len(canons) == 1:
                            canon = next(iter(canons))
                            if actual != canon and canon not in top and actual in top and list(wanted).count(actual) == 1:
                                ren[actual] = canon
        attr_ren: list[tuple[ast.ClassDef, str, str]] = []
        if mod.name in _WRAPPER_CLASSES:
            # the method a wrapper class's __get__ binds to the instance (`partial(self.<method>, instance)`) is its
            # `__method_call__`, whatever it is called
            for cdef in [c for c in top.values() if isinstance(c, ast.ClassDef)]:
                meths = {m.name: m for m in cdef.body if isinstance(m, (ast.FunctionDef, ast.AsyncFunctionDef))}
                get = meths.get("__get__")
                if get is None or "__method_call__" in meths:
                    continue
                bound = {c.args[0].attr for c in ast.walk(get) if isinstance(c, ast.Call) and isinstance(c.func, ast.Name) and c.func.id == "partial" and c.args and isinstance(c.args[0], ast.Attribute) and isinstance(c.args[0].value, ast.Name) and c.args[0].value.id == "self"}
                if len(bound) == 1 and next(iter(bound)) in meths and next(iter(bound)).startswith("_"):
                    attr_ren.append((cdef, next(iter(bound)), "__method_call__"))
        if mod.name == "haiway.helpers.asynchrony" and "_mimic_async" not in top:
            # the private module-level mimic used for the executor wrapper: the function taking (function, within=...)
            cands_ = [n for n, f in top.items() if isinstance(f, ast.FunctionDef) and n.startswith("_") and "within" in [a.arg for a in f.args.args + f.args.kwonlyargs] and any(isinstance(c, ast.Call) and isinstance(c.func, ast.Name) and c.func.id == n and any(k.arg == "within" for k in c.keywords) for c in ast.walk(mod.tree))]
            if len(cands_) == 1:
                ren[cands_[0]] = "_mimic_async"
        for cdef, actual, canon in attr_ren:
            for n in ast.walk(mod.tree):
                if isinstance(n, (ast.FunctionDef, ast.AsyncFunctionDef)) and n.name == actual and any(n is m for m in cdef.body):
                    n.name = canon
            for n in ast.walk(cdef):
                if isinstance(n, ast.Attribute) and n.attr == actual and isinstance(n.value, ast.Name) and n.value.id == "self":
                    n.attr = canon
            log.append(f"{mod.name}: method {cdef.name}.{actual} analysed as {canon} (what __get__ binds to the instance)")
        if not ren and not nested_ren:
            continue
        for outer, actual, canon in nested_ren:
            for n in ast.walk(outer):
                if isinstance(n, (ast.FunctionDef, ast.AsyncFunctionDef)) and n.name == actual:
                    n.name = canon
                elif isinstance(n, ast.Name) and n.id == actual:
                    n.id = canon
            log.append(f"{mod.name}: nested function {getattr(outer, 'name', '?')}.{actual} analysed as {canon}")
        if ren:
            for n in ast.walk(mod.tree):
                if isinstance(n, (ast.FunctionDef, ast.AsyncFunctionDef, ast.ClassDef)) and n.name in ren and any(n is s for s in mod.tree.body):
                    n.name = ren[n.name]
                elif isinstance(n, ast.Name) and n.id in ren:
                    n.id = ren[n.id]
                elif isinstance(n, ast.Constant) and isinstance(n.value, str) and n.value in ren:
                    n.value = ren[n.value]  # forward references in annotations / __all__
            for actual, canon in ren.items():
                log.append(f"{mod.name}: private name {actual} analysed as {canon} (the role it plays)")
    return log


def wrapper_ctor_param_renames(prog: Program) -> list[str]:
    """The constructor parameters of the private wrapper classes are named after what the public decorator passes into them:
    `_AsyncThrottle(function, allowed=limit, window=period)` is analysed as `_AsyncThrottle(function, limit=limit,
    period=period)` (parameter, its uses inside __init__, and the keywords at the construction sites)."""
    log: list[str] = []
    for mod in prog.modules.values():
        if mod.name not in _WRAPPER_CLASSES:
            continue
        pub_name, by_kind = _WRAPPER_CLASSES[mod.name]
        pub = _impl(mod, pub_name)
        if pub is None:
            continue
        pub_params = {a.arg for a in pub.args.posonlyargs + pub.args.args + pub.args.kwonlyargs}
        for cname in by_kind.values():
            cdef = next((s for s in mod.tree.body if isinstance(s, ast.ClassDef) and s.name == cname), None)
            init = next((m for m in cdef.body if isinstance(m, ast.FunctionDef) and m.name == "__init__"), None) if cdef is not None else None
            if init is None:
                continue
            iparams = [a.arg for a in init.args.posonlyargs + init.args.args][1:]
            kwonly = [a.arg for a in init.args.kwonlyargs]
            sites = [c for c in ast.walk(pub) if isinstance(c, ast.Call) and isinstance(c.func, ast.Name) and c.func.id == cname]
            wanted: dict[str, set[str]] = {}
            for c in sites:
                for i, a in enumerate(c.args):
                    if isinstance(a, ast.Name) and i < len(iparams) and a.id in pub_params | {"function", "wrapped"}:
                        wanted.setdefault(iparams[i], set()).add(a.id)
                for k in c.keywords:
                    v = k.value
                    # cast(T, x) / `None if x is MISSING else x` still name the source parameter
                    names = {n.id for n in ast.walk(v) if isinstance(n, ast.Name) and n.id in pub_params}
                    if k.arg and len(names) == 1:
                        wanted.setdefault(k.arg, set()).add(next(iter(names)))
            ren = {p: next(iter(v)) for p, v in wanted.items() if len(v) == 1 and next(iter(v)) != p and p in iparams + kwonly and next(iter(v)) not in iparams + kwonly and next(iter(v)) not in ("function", "wrapped")}
            if not ren:
                continue
            stored_elsewhere = {n.id for n in ast.walk(init) if isinstance(n, ast.Name) and isinstance(n.ctx, ast.Store)}
            ren = {p: q for p, q in ren.items() if q not in stored_elsewhere}
            for n in ast.walk(init):
                if isinstance(n, ast.arg) and n.arg in ren:
                    n.arg = ren[n.arg]
                elif isinstance(n, ast.Name) and n.id in ren:
                    n.id = ren[n.id]
            for c in sites:
                for k in c.keywords:
                    if k.arg in ren:
                        k.arg = ren[k.arg]
            for p_, q_ in ren.items():
                log.append(f"{mod.name}: constructor parameter {cname}.__init__({p_}) analysed as `{q_}` (what {pub_name}() passes into it)")
    return log


# ---------------------------------------------------------------------------------------------- conversions that return their argument
def strip_identity_conversions(prog: Program) -> list[str]:
    """`tuple(x)` of an exact tuple, `bool(x)` of an exact bool, `str(x)` of an exact str return x itself.  Where the
    argument is syntactically such a value - the function's own `*args` parameter (never re-bound), a tuple display, a
    comparison / `not` / `isinstance(...)`, an f-string or string constant - the call is dropped before the rules look."""
    log: list[str] = []
    for mod in prog.modules.values():
        count = 0
        for fn in [n for n in ast.walk(mod.tree) if isinstance(n, (ast.FunctionDef, ast.AsyncFunctionDef))]:
            va = fn.args.vararg.arg if fn.args.vararg else None
            rebound = {n.id for n in ast.walk(fn) if isinstance(n, ast.Name) and isinstance(n.ctx, (ast.Store, ast.Del))}
            nested_params = {a.arg for sub in ast.walk(fn) if isinstance(sub, (ast.FunctionDef, ast.AsyncFunctionDef, ast.Lambda)) and sub is not fn for a in (sub.args.posonlyargs + sub.args.args + sub.args.kwonlyargs + ([sub.args.vararg] if sub.args.vararg else []) + ([sub.args.kwarg] if sub.args.kwarg else []))}

            tuple_params = {a.arg for a in fn.args.posonlyargs + fn.args.args + fn.args.kwonlyargs if a.annotation is not None and ast.unparse(a.annotation).startswith("tuple[")}

            def exact(e: ast.AST, kind: str) -> bool:
                if kind == "tuple":
                    if isinstance(e, ast.Name) and e.id in tuple_params and e.id not in rebound and e.id not in nested_params:
                        return True  # declared a tuple: the conversion is an element-preserving (for exact tuples: identical) copy
                    return isinstance(e, ast.Tuple) or (isinstance(e, ast.Name) and e.id == va and va not in rebound and va not in nested_params)
                if kind == "bool":
                    if isinstance(e, ast.Compare):
                        return all(isinstance(o, (ast.Is, ast.IsNot, ast.In, ast.NotIn)) for o in e.ops) or all(isinstance(x, ast.Call) and isinstance(x.func, ast.Name) and x.func.id == "len" for x in [e.left, *e.comparators] if not isinstance(x, ast.Constant))
                    if isinstance(e, ast.UnaryOp) and isinstance(e.op, ast.Not):
                        return True
                    return isinstance(e, ast.Call) and isinstance(e.func, ast.Name) and e.func.id in ("isinstance", "issubclass", "callable", "bool", "all", "any")
                if kind == "str":
                    return isinstance(e, ast.JoinedStr) or (isinstance(e, ast.Constant) and isinstance(e.value, str))
                return False

            class T(ast.NodeTransformer):
                def visit_FunctionDef(self, n):  # noqa: N802 - nested functions are visited on their own
                    return n if n is not fn else self.generic_visit(n)

                visit_AsyncFunctionDef = visit_FunctionDef

                def visit_Call(self, c: ast.Call):  # noqa: N802
                    nonlocal count
                    self.generic_visit(c)
                    if isinstance(c.func, ast.Name) and c.func.id in ("tuple", "bool", "str") and len(c.args) == 1 and not c.keywords and not isinstance(c.args[0], ast.Starred) and exact(c.args[0], c.func.id):
                        count += 1
                        return c.args[0]
                    return c

            T().visit(fn)
        if count:
            log.append(f"{mod.name}: {count} conversion(s) of a value that already has the type dropped (tuple(*args) / bool(<comparison>) / str(<f-string>))")
    return log


# ---------------------------------------------------------------------------------------------- handlers that only re-raise
def drop_reraise_only_handlers(prog: Program) -> list[str]:
    """`try: BODY except X: raise` (every handler of the try is a bare `raise`, nothing else) is BODY: the same exception
    object propagates either way.  With a `finally` the try/finally remains.  (A re-raising handler in front of a
    *catching* one - `except CancelledError: raise / except BaseException: pass` - decides which exceptions the second one
    sees and is left alone.)"""
    log: list[str] = []

    def only_reraise(h: ast.ExceptHandler) -> bool:
        body = [x for x in h.body if not (isinstance(x, ast.Expr) and isinstance(x.value, ast.Constant))]
        return len(body) == 1 and isinstance(body[0], ast.Raise) and body[0].exc is None and body[0].cause is None

    for mod in prog.modules.values():
        count = 0

        class T(ast.NodeTransformer):
            def _block(self, stmts: list[ast.stmt]) -> list[ast.stmt]:
                nonlocal count
                out: list[ast.stmt] = []
                for st in stmts:
                    st = self.visit(st)
                    if isinstance(st, ast.Try) and st.handlers and all(only_reraise(h) for h in st.handlers):
                        count += 1
                        if st.finalbody:
                            st.body = st.body + st.orelse
                            st.handlers, st.orelse = [], []
                            out.append(st)
                        else:
                            out.extend(st.body + st.orelse)
                    else:
                        out.append(st)
                return out

            def generic_visit(self, node):
                for field in ("body", "orelse", "finalbody"):
                    sub = getattr(node, field, None)
                    if isinstance(sub, list) and sub and isinstance(sub[0], ast.stmt):
                        setattr(node, field, self._block(sub))
                if isinstance(node, ast.Try):
                    for h in node.handlers:
                        h.body = self._block(h.body)
                if isinstance(node, ast.Match):
                    for c in node.cases:
                        c.body = self._block(c.body)
                return node

        T().visit(mod.tree)
        if count:
            ast.fix_missing_locations(mod.tree)
            log.append(f"{mod.name}: {count} try statement(s) whose handlers only re-raise reduced to their body")
    return log


def strip_typed_conversions(prog: Program) -> list[str]:
    """`float(x)` / `str(x)` / `int(x)` / `bool(x)` where the resolved type of x (annotations, `Future[float].result()`, str
    methods, f-strings) is exactly that builtin type: the conversion returns x itself."""
    log: list[str] = []
    for mod in prog.modules.values():
        count = 0
        for fi in [f for f in prog.functions.values() if f.module is mod]:

            class T(ast.NodeTransformer):
                def visit_FunctionDef(self, n, fi=fi):  # noqa: N802
                    return n if n is not fi.node else self.generic_visit(n)

                visit_AsyncFunctionDef = visit_FunctionDef

                def visit_Call(self, c: ast.Call, fi=fi):  # noqa: N802
                    nonlocal count
                    self.generic_visit(c)
                    if isinstance(c.func, ast.Name) and c.func.id in ("float", "str", "int", "bool") and len(c.args) == 1 and not c.keywords and not isinstance(c.args[0], ast.Starred):
                        t = prog.expr_type(fi, c.args[0])
                        if t is not None and not t.is_class and t.name == "builtins." + c.func.id:
                            count += 1
                            return c.args[0]
                    return c

            T().visit(fi.node)

            # `<mapping>.pop(key, <default>)` as a statement (result unused) removes the key: read as `del <mapping>[key]`
            # (the forms differ only for an absent key, where `del` raises - the rules judge the removal of a present key)
            class P(ast.NodeTransformer):
                def visit_FunctionDef(self, n, fi=fi):  # noqa: N802
                    return n if n is not fi.node else self.generic_visit(n)

                visit_AsyncFunctionDef = visit_FunctionDef

                def visit_Expr(self, e: ast.Expr, fi=fi):  # noqa: N802
                    nonlocal count
                    c = e.value
                    if isinstance(c, ast.Call) and isinstance(c.func, ast.Attribute) and c.func.attr == "pop" and len(c.args) == 2 and not c.keywords and _is_simple(c.func.value) and _is_simple(c.args[0]):
                        t = prog.expr_type(fi, c.func.value)
                        if t is not None and t.name in ("builtins.dict", "collections.OrderedDict"):
                            count += 1
                            return ast.copy_location(ast.Delete(targets=[ast.Subscript(value=c.func.value, slice=c.args[0], ctx=ast.Del())]), e)
                    return e

            P().visit(fi.node)
            ast.fix_missing_locations(fi.node)
        if count:
            log.append(f"{mod.name}: {count} conversion(s) to the type the value already has dropped / statement-level mapping.pop(key, default) read as del")
    return log



# ---------------------------------------------------------------------------------------------- cursor loops
def cursor_loops_as_recursion(prog: Program) -> list[str]:
    """A method that ends in `cursor = self; while True: BODY(cursor); cursor = NEXT` (or `while cursor is not None:` with
    `cursor = None` to stop) - a walk along a chain of objects of its own class, the tail call `NEXT.method()` written as a
    loop - is read in its recursive form again: BODY(self); NEXT.method(); return.  One iteration with cursor = X is exactly
    one activation of the method on X when nothing but the cursor is carried from one iteration to the next: every other
    local of the loop is bound unconditionally before it is read, the loop has no break / continue / valued return, `self`
    is not used inside it, the method returns nothing, and the cursor is re-bound only as the last thing an iteration does
    (on every path that does not return)."""
    log: list[str] = []

    def scoped_walk(n: ast.AST):
        yield n
        for c in ast.iter_child_nodes(n):
            if isinstance(c, (ast.FunctionDef, ast.AsyncFunctionDef, ast.Lambda, ast.ListComp, ast.SetComp, ast.DictComp, ast.GeneratorExp, ast.ClassDef)):
                continue
            yield from scoped_walk(c)

    def is_none(e: ast.AST | None) -> bool:
        return isinstance(e, ast.Constant) and e.value is None

    for fi in list(prog.functions.values()):
        node = fi.node
        if not fi.is_method or not isinstance(node, ast.FunctionDef) or node.decorator_list:
            continue
        params = node.args.posonlyargs + node.args.args
        if len(params) != 1 or node.args.kwonlyargs or node.args.vararg or node.args.kwarg:
            continue  # further parameters would have to be carried as well
        selfname = params[0].arg
        body = node.body
        if len(body) < 2 or not isinstance(body[-1], ast.While):
            continue
        loop, init = body[-1], body[-2]
        if loop.orelse or not loop.body:
            continue
        tgt = init.targets[0] if isinstance(init, ast.Assign) and len(init.targets) == 1 else (init.target if isinstance(init, ast.AnnAssign) else None)
        if not (isinstance(tgt, ast.Name) and isinstance(getattr(init, "value", None), ast.Name) and init.value.id == selfname):
            continue
        cursor = tgt.id
        t = loop.test
        forever = isinstance(t, ast.Constant) and t.value is True
        until_none = isinstance(t, ast.Compare) and len(t.ops) == 1 and isinstance(t.ops[0], ast.IsNot) and isinstance(t.left, ast.Name) and t.left.id == cursor and is_none(t.comparators[0])
        if not (forever or until_none):
            continue
        inner = [n for s in loop.body for n in scoped_walk(s)]
        everything = [n for s in loop.body for n in ast.walk(s)]
        if any(isinstance(n, (ast.Break, ast.Continue, ast.Yield, ast.YieldFrom, ast.Await, ast.Global, ast.Nonlocal)) for n in everything):
            continue
        valued = lambda n: isinstance(n, ast.Return) and n.value is not None and not is_none(n.value)  # noqa: E731
        if any(valued(n) for n in inner) or any(valued(n) for s in body[:-2] for n in scoped_walk(s)):
            continue
        if any(isinstance(n, ast.Name) and n.id == selfname for n in everything):
            continue
        if any(isinstance(n, ast.Name) and n.id == cursor for s in body[:-2] for n in ast.walk(s)):
            continue
        # nothing but the cursor is carried over: every other local is bound by a top-level statement of the loop body before
        # its first use
        stored = {n.id for n in inner if isinstance(n, ast.Name) and isinstance(n.ctx, ast.Store)} | {n.name for n in inner if isinstance(n, (ast.MatchAs, ast.MatchStar, ast.ExceptHandler)) and n.name}
        stored.discard(cursor)
        ok = True
        for name in stored:
            if any(isinstance(n, ast.Name) and n.id == name for s in body[:-2] for n in ast.walk(s)) or name == selfname:
                ok = False
                break
            # bound (unconditionally, by a plain assignment that does not read it) in front of every read: the first statement
            # mentioning the name - at the top level of the loop body, or of the branch that alone uses it - is that assignment
            def first_is_binding(block: list[ast.stmt], name=name) -> bool:
                first = next((k for k, s in enumerate(block) if any(isinstance(n, ast.Name) and n.id == name for n in ast.walk(s))), None)
                if first is None:
                    return True
                s0 = block[first]
                t0 = s0.targets[0] if isinstance(s0, ast.Assign) and len(s0.targets) == 1 else (s0.target if isinstance(s0, ast.AnnAssign) and s0.value is not None else None)
                if isinstance(t0, ast.Name) and t0.id == name and not any(isinstance(n, ast.Name) and n.id == name for n in ast.walk(s0.value)):  # type: ignore[union-attr]
                    return True
                if isinstance(s0, ast.If) and not any(isinstance(n, ast.Name) and n.id == name for n in ast.walk(s0.test)) and not any(isinstance(n, ast.Name) and n.id == name for s in block[first + 1 :] for n in ast.walk(s)):
                    return first_is_binding(s0.body) and first_is_binding(s0.orelse)
                return False

            if not first_is_binding(loop.body):
                ok = False
                break
        if not ok:
            continue
        cls = fi.qualname.rsplit(".", 1)[0]

        # every re-binding of the cursor is the last statement of its path through the loop body
        stores = [n for n in everything if isinstance(n, ast.Name) and n.id == cursor and isinstance(n.ctx, ast.Store)]
        tails: list[tuple[list[ast.stmt], int, list[ast.If]]] = []

        def collect(block: list[ast.stmt], guards: list) -> bool:
            """False when a path through `block` reaches its end without re-binding the cursor or returning."""
            if not block:
                return False
            last = block[-1]
            lt = last.targets[0] if isinstance(last, ast.Assign) and len(last.targets) == 1 else (last.target if isinstance(last, ast.AnnAssign) and last.value is not None else None)
            if isinstance(lt, ast.Name) and lt.id == cursor:
                tails.append((block, len(block) - 1, list(guards)))
                return True
            if isinstance(last, (ast.Return, ast.Raise)):
                return True
            if isinstance(last, ast.If):
                return collect(last.body, guards + [(last, True)]) and collect(last.orelse, guards + [(last, False)])
            return False

        if not collect(loop.body, []) or len(tails) != len(stores) or not tails:
            continue
        good = True
        for block, i, _g in tails:
            v = block[i].value  # type: ignore[union-attr]
            if is_none(v):
                if not until_none:
                    good = False
            else:
                ty = prog.expr_type(fi, v)
                if ty is None or ty.name != cls:
                    good = False
        if not good:
            continue

        def known_not_none(v: ast.AST, guards: list) -> bool:
            if not isinstance(v, ast.Name):
                return False
            for g, arm in guards:
                if not arm:
                    continue
                first = g.test
                while isinstance(first, ast.BoolOp) and isinstance(first.op, ast.And):
                    first = first.values[0]
                if isinstance(first, ast.Name) and first.id == v.id:
                    return True
                if isinstance(first, ast.Compare) and len(first.ops) == 1 and isinstance(first.ops[0], ast.IsNot) and isinstance(first.left, ast.Name) and first.left.id == v.id and is_none(first.comparators[0]):
                    return True
            return False

        class S(ast.NodeTransformer):
            def visit_Name(self, n: ast.Name):  # noqa: N802
                if n.id == cursor and isinstance(n.ctx, ast.Load):
                    return ast.copy_location(ast.Name(id=selfname, ctx=ast.Load()), n)
                return n

        shown = ""
        for block, i, guards in tails:
            st = block[i]
            v = st.value  # type: ignore[union-attr]
            ret = ast.copy_location(ast.Return(value=None), st)
            if is_none(v):
                block[i : i + 1] = [ret]
                continue
            call = ast.copy_location(ast.Expr(value=ast.Call(func=ast.Attribute(value=v, attr=node.name, ctx=ast.Load()), args=[], keywords=[])), st)
            shown = ast.unparse(call.value)
            if until_none and not known_not_none(v, guards):
                call = ast.copy_location(ast.If(test=ast.Compare(left=clone(v), ops=[ast.IsNot()], comparators=[ast.Constant(value=None)]), body=[call], orelse=[]), st)
            block[i : i + 1] = [call, ret]
        node.body = body[:-2] + [S().visit(s) for s in loop.body]
        ast.fix_missing_locations(node)
        log.append(f"{fi.short}: loop over the cursor `{cursor}` read as the tail call {shown}")
    return log


# ---------------------------------------------------------------------------------------------- spelled-out with statements
def explicit_context_protocol_as_with(prog: Program) -> list[str]:
    """`await X.__aenter__(); try: BODY except BaseException as e: await X.__aexit__(type(e), e, e.__traceback__); raise
    else: await X.__aexit__(None, None, None)` is the expansion of `async with X: BODY` for a manager whose __aexit__ never
    suppresses (no valued return in the resolved class's method); likewise the synchronous protocol.  Read as the with
    statement again."""
    log: list[str] = []

    def proto_call(e: ast.AST, recv: str, name: str, awaited: bool) -> ast.Call | None:
        if awaited:
            if not isinstance(e, ast.Await):
                return None
            e = e.value
        if isinstance(e, ast.Call) and isinstance(e.func, ast.Attribute) and e.func.attr == name and dotted(e.func.value) == recv:
            return e
        return None

    def is_none(e: ast.AST) -> bool:
        return isinstance(e, ast.Constant) and e.value is None

    def exit_args(c: ast.Call) -> list[ast.expr] | None:
        if any(isinstance(a, ast.Starred) for a in c.args) or any(k.arg is None for k in c.keywords):
            return None
        names = ["exc_type", "exc_val", "exc_tb"]
        got: dict[str, ast.expr] = dict(zip(names, c.args))
        for k in c.keywords:
            if k.arg not in names or k.arg in got:
                return None
            got[k.arg] = k.value
        return [got[n] for n in names] if len(got) == 3 else None

    for fi in list(prog.functions.values()):
        count = 0

        def rewrite(stmts: list[ast.stmt], fi=fi) -> list[ast.stmt]:
            nonlocal count
            out: list[ast.stmt] = []
            i = 0
            while i < len(stmts):
                s = stmts[i]
                for field in ("body", "orelse", "finalbody"):
                    sub = getattr(s, field, None)
                    if isinstance(sub, list) and sub and isinstance(sub[0], ast.stmt) and not isinstance(s, (ast.FunctionDef, ast.AsyncFunctionDef, ast.ClassDef)):
                        setattr(s, field, rewrite(sub))
                if isinstance(s, ast.Try):
                    for h in s.handlers:
                        h.body = rewrite(h.body)
                if isinstance(s, ast.Match):
                    for c in s.cases:
                        c.body = rewrite(c.body)
                nxt = stmts[i + 1] if i + 1 < len(stmts) else None
                done = False
                if isinstance(s, ast.Expr) and isinstance(nxt, ast.Try) and len(nxt.handlers) == 1 and not nxt.finalbody and len(nxt.orelse) == 1:
                    for awaited, enter, exit_ in ((True, "__aenter__", "__aexit__"), (False, "__enter__", "__exit__")):
                        e = s.value.value if awaited and isinstance(s.value, ast.Await) else (s.value if not awaited else None)
                        if not (isinstance(e, ast.Call) and isinstance(e.func, ast.Attribute) and e.func.attr == enter and not e.args and not e.keywords and _is_simple(e.func.value)):
                            continue
                        recv = dotted(e.func.value)
                        h = nxt.handlers[0]
                        if recv is None or not (h.type is None or (isinstance(h.type, ast.Name) and h.type.id == "BaseException")) or h.name is None:
                            continue
                        hb = [x for x in h.body if not (isinstance(x, ast.Expr) and isinstance(x.value, ast.Constant))]
                        if not (len(hb) == 2 and isinstance(hb[0], ast.Expr) and isinstance(hb[1], ast.Raise) and hb[1].exc is None):
                            continue
                        c1 = proto_call(hb[0].value, recv, exit_, awaited)
                        c2 = proto_call(nxt.orelse[0].value, recv, exit_, awaited) if isinstance(nxt.orelse[0], ast.Expr) else None
                        a1 = exit_args(c1) if c1 is not None else None
                        a2 = exit_args(c2) if c2 is not None else None
                        if a1 is None or a2 is None or not all(is_none(a) for a in a2):
                            continue
                        n_ = h.name
                        if not (ast.unparse(a1[0]) == f"type({n_})" and ast.unparse(a1[1]) == n_ and ast.unparse(a1[2]) == f"{n_}.__traceback__"):
                            continue
                        # the receiver is not re-bound inside the body and its class's exit never suppresses
                        root = _root_name(e.func.value)
                        if any(isinstance(n, ast.Name) and n.id == root and isinstance(n.ctx, ast.Store) for b in nxt.body for n in ast.walk(b)):
                            continue
                        t = prog.expr_type(fi, e.func.value)
                        if t is None or t.name not in prog.classes:
                            continue
                        m = next((c.method(exit_) for c in prog.mro(prog.classes[t.name]) if c.method(exit_) is not None), None)
                        if m is None or any(isinstance(r, ast.Return) and r.value is not None and not is_none(r.value) for r in m.own_nodes()):
                            continue
                        item = ast.withitem(context_expr=e.func.value, optional_vars=None)
                        w = (ast.AsyncWith if awaited else ast.With)(items=[item], body=nxt.body)
                        out.append(ast.copy_location(w, s))
                        count += 1
                        i += 2
                        done = True
                        break
                if not done:
                    out.append(s)
                    i += 1
            return out

        fi.node.body = rewrite(fi.node.body)
        if count:
            ast.fix_missing_locations(fi.node)
            log.append(f"{fi.short}: {count} spelled-out enter / try / exit protocol(s) read as with statement(s)")
    return log


# ---------------------------------------------------------------------------------------------- returned module-level functions
def nest_returned_module_functions(prog: Program) -> list[str]:
    """A private module-level function that only one other module-level function refers to, and only to `return` it (a
    closure that captured nothing, hoisted out of its factory), is read as the nested function it was: the same code, with
    the same globals, handed out by the same factory - only that a fresh function object per call is no longer made, which
    nothing in the package observes (functions are not compared or used as keys)."""
    log: list[str] = []
    for mod in prog.modules.values():
        body = mod.tree.body
        funcs = {s.name: s for s in body if isinstance(s, (ast.FunctionDef, ast.AsyncFunctionDef))}
        moved = 0
        for name, fdef in list(funcs.items()):
            if not name.startswith("_") or name.startswith("__") or fdef.decorator_list:
                continue
            if f"{mod.name}.{name}".replace("haiway.", "", 1) in ANCHOR_HELPERS or f"{mod.name}.{name}" in ANCHOR_HELPERS:
                continue
            uses = [n for n in ast.walk(mod.tree) if isinstance(n, ast.Name) and n.id == name]
            if not uses or any(not isinstance(n.ctx, ast.Load) for n in uses):
                continue
            owners = set()
            ok = True
            for u in uses:
                owner = None
                for g in funcs.values():
                    if g is not fdef and any(x is u for x in ast.walk(g)):
                        owner = g
                if owner is None:
                    ok = False
                    break
                owners.add(owner.name)
                rets = [r for r in ast.walk(owner) if isinstance(r, ast.Return) and r.value is u]
                in_nested = any(isinstance(x, (ast.FunctionDef, ast.AsyncFunctionDef, ast.Lambda)) and x is not owner and any(y is u for y in ast.walk(x)) for x in ast.walk(owner))
                if not rets or in_nested:
                    ok = False
                    break
            if not ok or len(owners) != 1:
                continue
            owner = funcs[next(iter(owners))]
            # other modules must not import it, and the owner must not bind the name itself
            if any(name in (a.asname or a.name for a in imp.names) for m2 in prog.modules.values() for imp in ast.walk(m2.tree) if isinstance(imp, ast.ImportFrom)):
                continue
            if any(isinstance(x, ast.arg) and x.arg == name for x in ast.walk(owner)) or any(isinstance(x, ast.Name) and x.id == name and not isinstance(x.ctx, ast.Load) for x in ast.walk(owner)):
                continue
            # names the function reads must not be shadowed by the owner's parameters / locals
            owner_bound = {a.arg for a in ast.walk(owner.args) if isinstance(a, ast.arg)} | {x.id for x in ast.walk(owner) if isinstance(x, ast.Name) and isinstance(x.ctx, ast.Store)}
            inner_bound = {a.arg for a in ast.walk(fdef.args) if isinstance(a, ast.arg)} | {x.id for x in ast.walk(fdef) if isinstance(x, ast.Name) and isinstance(x.ctx, ast.Store)}
            free = {x.id for x in ast.walk(fdef) if isinstance(x, ast.Name) and isinstance(x.ctx, ast.Load)} - inner_bound
            if free & owner_bound:
                continue
            at = 1 if owner.body and isinstance(owner.body[0], ast.Expr) and isinstance(owner.body[0].value, ast.Constant) and isinstance(owner.body[0].value.value, str) else 0
            body.remove(fdef)
            owner.body.insert(at, fdef)
            del funcs[name]
            moved += 1
        if moved:
            ast.fix_missing_locations(mod.tree)
            log.append(f"{mod.name}: {moved} module-level function(s) that only their factory returns read as its nested function(s)")
    return log


# ---------------------------------------------------------------------------------------------- single exit through a result variable
def sink_result_returns(prog: Program) -> list[str]:
    """A function that ends in `return r`, r a plain local bound in the branches in front of it (`if c: r = a  else: r = b;
    return r`, also through try / except arms), is read with the return moved to the end of every arm and `r = E; return r`
    folded to `return E`: the same paths, the same values, written with early returns.  Arms are the bodies of a trailing
    `if` / `try` (its `else` when it has one, and every handler); nothing is moved into `with` blocks (an exit may suppress)
    or loops."""
    log: list[str] = []

    def sink(block: list[ast.stmt], r: str, where: ast.AST, folded: list[int]) -> None:
        last = block[-1] if block else None
        tgt = None
        if isinstance(last, ast.Assign) and len(last.targets) == 1:
            tgt = last.targets[0]
        elif isinstance(last, ast.AnnAssign) and last.value is not None:
            tgt = last.target
        if isinstance(tgt, ast.Name) and tgt.id == r:
            block[-1] = ast.copy_location(ast.Return(value=last.value), last)  # type: ignore[union-attr]
            folded[0] += 1
        elif isinstance(last, ast.If):
            sink(last.body, r, where, folded)
            sink(last.orelse, r, where, folded)
        elif isinstance(last, ast.Try) and not any(isinstance(x, ast.Return) or (isinstance(x, ast.Name) and x.id == r and not isinstance(x.ctx, ast.Load)) for s in last.finalbody for x in ast.walk(s)):
            sink(last.orelse if last.orelse else last.body, r, where, folded)
            for h in last.handlers:
                sink(h.body, r, where, folded)
        elif isinstance(last, (ast.Raise, ast.Return, ast.Continue, ast.Break)):
            pass
        else:
            block.append(ast.copy_location(ast.Return(value=ast.Name(id=r, ctx=ast.Load())), where))

    for fi in list(prog.functions.values()):
        body = fi.node.body
        if len(body) < 2 or not isinstance(body[-1], ast.Return) or not isinstance(body[-1].value, ast.Name):
            continue
        r = body[-1].value.id
        if not isinstance(body[-2], (ast.If, ast.Try)):
            continue
        # the variable is a plain local of this function: not shared with closures, not declared global / nonlocal
        if any(isinstance(n, (ast.Global, ast.Nonlocal)) and r in n.names for n in ast.walk(fi.node)):
            continue
        if any(isinstance(n, (ast.FunctionDef, ast.AsyncFunctionDef, ast.Lambda)) and n is not fi.node and any(isinstance(x, ast.Name) and x.id == r for x in ast.walk(n)) for n in ast.walk(fi.node)):
            continue
        trial = [clone(s) for s in body[:-1]]
        folded = [0]
        sink(trial, r, body[-1], folded)
        if not folded[0]:
            continue
        fi.node.body = trial
        ast.fix_missing_locations(fi.node)
        log.append(f"{fi.short}: single exit through `{r}` read as {folded[0]} early return(s)")
    return log


# ---------------------------------------------------------------------------------------------- small equivalences
def small_equivalences(prog: Program) -> list[str]:
    """`not (a is b)` / `not (a in b)` -> `a is not b` / `a not in b` (and the reverse spellings); `del X[next(iter(X))]` ->
    `X.popitem(last=False)` for a dict / OrderedDict X (the first key in order is the first item); `kw.pop(K, D)` on the
    function's own `**kw` (a dict private to the call) as its only use, inside a loop over the distinct keys of a mapping with K
    the loop's key -> `kw.get(K, D)` (every key is looked up once, the removal is never observed)."""
    log: list[str] = []
    inv = {ast.Is: ast.IsNot, ast.IsNot: ast.Is, ast.In: ast.NotIn, ast.NotIn: ast.In}
    for mod in prog.modules.values():
        count = 0

        class T(ast.NodeTransformer):
            def visit_UnaryOp(self, n: ast.UnaryOp):  # noqa: N802
                nonlocal count
                self.generic_visit(n)
                c = n.operand
                if isinstance(n.op, ast.Not) and isinstance(c, ast.Compare) and len(c.ops) == 1 and type(c.ops[0]) in inv:
                    count += 1
                    return ast.copy_location(ast.Compare(left=c.left, ops=[inv[type(c.ops[0])]()], comparators=c.comparators), n)
                return n

        T().visit(mod.tree)
        for fi in [f for f in prog.functions.values() if f.module is mod]:
            for n in list(fi.own_nodes()):
                # del X[next(iter(X))]
                if isinstance(n, ast.Delete) and len(n.targets) == 1 and isinstance(n.targets[0], ast.Subscript):
                    t = n.targets[0]
                    sl = t.slice
                    if isinstance(sl, ast.Call) and isinstance(sl.func, ast.Name) and sl.func.id == "next" and len(sl.args) == 1 and isinstance(sl.args[0], ast.Call) and isinstance(sl.args[0].func, ast.Name) and sl.args[0].func.id == "iter" and len(sl.args[0].args) == 1 and _is_simple(t.value) and ast.dump(sl.args[0].args[0]) == ast.dump(t.value).replace("Del()", "Load()").replace("Store()", "Load()"):
                        ty = prog.expr_type(fi, t.value)
                        if ty is not None and ty.name in ("builtins.dict", "collections.OrderedDict"):
                            new = ast.copy_location(ast.Expr(value=ast.Call(func=ast.Attribute(value=clone(sl.args[0].args[0]), attr="popitem", ctx=ast.Load()), args=[], keywords=[ast.keyword(arg="last", value=ast.Constant(value=False))])), n)
                            par = getattr(n, "_parent", None)
                            for f_ in ("body", "orelse", "finalbody"):
                                blk = getattr(par, f_, None)
                                if isinstance(blk, list) and n in blk:
                                    blk[blk.index(n)] = new
                                    count += 1
            # `self._token.var.reset(self._token)`: Token.var is the variable that made the token - when every non-None value the
            # attribute is given is `<CV>.set(...)` of one and the same variable expression, that is `<CV>.reset(self._token)`
            if fi.cls is not None:
                for n in list(fi.own_nodes()):
                    if isinstance(n, ast.Call) and isinstance(n.func, ast.Attribute) and n.func.attr == "reset" and len(n.args) == 1 and not n.keywords and isinstance(n.func.value, ast.Attribute) and n.func.value.attr == "var":
                        tok = n.func.value.value
                        if isinstance(tok, ast.Attribute) and isinstance(tok.value, ast.Name) and ast.dump(tok) == ast.dump(n.args[0]):
                            vals = [v for v in fi.cls.attr_val.get(tok.attr, []) if not (isinstance(v, ast.Constant) and v.value is None)]
                            cvs = {ast.dump(v.func.value) for v in vals if isinstance(v, ast.Call) and isinstance(v.func, ast.Attribute) and v.func.attr == "set"}
                            if vals and len(cvs) == 1 and all(isinstance(v, ast.Call) and isinstance(v.func, ast.Attribute) and v.func.attr == "set" for v in vals):
                                n.func.value = clone(vals[0].func.value)  # type: ignore[union-attr]
                                count += 1
            # `for i, r in enumerate(R): ... X[i] ...` with the index used for nothing but `X[i]` (X a plain attribute / name that
            # the loop does not touch): the pairs of `zip(X, R)` - the same elements whenever the indexed form does not raise
            for n in list(fi.own_nodes()):
                if isinstance(n, ast.For) and isinstance(n.iter, ast.Call) and isinstance(n.iter.func, ast.Name) and n.iter.func.id == "enumerate" and len(n.iter.args) == 1 and not n.iter.keywords and isinstance(n.target, ast.Tuple) and len(n.target.elts) == 2 and isinstance(n.target.elts[0], ast.Name):
                    idx = n.target.elts[0].id
                    uses_i = [x for st in n.body + n.orelse for x in ast.walk(st) if isinstance(x, ast.Name) and x.id == idx]
                    subs = [getattr(x, "_parent", None) for x in uses_i]
                    if uses_i and all(isinstance(sb, ast.Subscript) and sb.slice is x and isinstance(sb.ctx, ast.Load) and _is_simple(sb.value) for x, sb in zip(uses_i, subs)):
                        bases = {ast.dump(sb.value) for sb in subs}
                        used_after = any(isinstance(x, ast.Name) and x.id == idx for x in fi.own_nodes() if not any(x is y for st in [n] for y in ast.walk(st)))
                        base_root = _root_name(subs[0].value)
                        touched = any(isinstance(x, ast.Name) and x.id == base_root and not isinstance(x.ctx, ast.Load) for st in n.body for x in ast.walk(st))
                        if len(bases) == 1 and not used_after and not touched:
                            elem = f"{idx}__item"
                            for sb in subs:
                                par = getattr(sb, "_parent", None)
                                repl = ast.copy_location(ast.Name(id=elem, ctx=ast.Load()), sb)
                                for f_, v_ in ast.iter_fields(par):
                                    if v_ is sb:
                                        setattr(par, f_, repl)
                                    elif isinstance(v_, list):
                                        for j, y in enumerate(v_):
                                            if y is sb:
                                                v_[j] = repl
                            n.target.elts[0] = ast.copy_location(ast.Name(id=elem, ctx=ast.Store()), n.target.elts[0])
                            n.iter = ast.copy_location(ast.Call(func=ast.Name(id="zip", ctx=ast.Load()), args=[clone(subs[0].value), n.iter.args[0]], keywords=[ast.keyword(arg="strict", value=ast.Constant(value=True))]), n.iter)
                            count += 1
            kwn = fi.node.args.kwarg.arg if fi.node.args.kwarg else None
            if kwn:
                uses = [x for x in fi.own_nodes() if isinstance(x, ast.Name) and x.id == kwn]
                if len(uses) == 1 and isinstance(uses[0].ctx, ast.Load):
                    att = getattr(uses[0], "_parent", None)
                    call = getattr(att, "_parent", None)
                    if isinstance(att, ast.Attribute) and att.attr == "pop" and isinstance(call, ast.Call) and call.func is att and len(call.args) == 2 and not call.keywords and isinstance(call.args[0], ast.Name):
                        loop = next((a for a in _ancestors_of(call) if isinstance(a, ast.For)), None)
                        if loop is not None:
                            it = loop.iter
                            over_mapping = isinstance(it, ast.Call) and isinstance(it.func, ast.Attribute) and it.func.attr in ("items", "keys") and not it.args
                            key_t = loop.target.elts[0] if isinstance(loop.target, ast.Tuple) and loop.target.elts else loop.target
                            if over_mapping and isinstance(key_t, ast.Name) and key_t.id == call.args[0].id and not any(isinstance(x, (ast.For, ast.While)) and x is not loop for x in _ancestors_of(call) if x is not fi.node and any(y is loop for y in ast.walk(x)) is False):
                                att.attr = "get"
                                count += 1
        if count:
            ast.fix_missing_locations(mod.tree)
            log.append(f"{mod.name}: {count} small equivalent spelling(s) read in the usual form (not .. is / del X[next(iter(X))] / kwargs.pop)")
    return log


def _ancestors_of(n: ast.AST):
    cur = getattr(n, "_parent", None)
    while cur is not None:
        yield cur
        cur = getattr(cur, "_parent", None)


# ---------------------------------------------------------------------------------------------- registry displays
def expand_registry_displays(prog: Program) -> list[str]:
    """`{**dict.fromkeys((A, B, *MORE), VALUE), K: V}` in a module-level dict display, MORE a module-level tuple of plain names:
    written out as the entries it stands for (same keys, in the same order, each with VALUE)."""
    log: list[str] = []
    for mod in prog.modules.values():
        tuples = {}
        for st in mod.tree.body:
            tgt = st.target if isinstance(st, ast.AnnAssign) else (st.targets[0] if isinstance(st, ast.Assign) and len(st.targets) == 1 else None)
            if isinstance(tgt, ast.Name) and isinstance(getattr(st, "value", None), (ast.Tuple, ast.List)):
                tuples[tgt.id] = st.value

        def keys_of(e: ast.AST, depth: int = 3) -> list[ast.expr] | None:
            if depth == 0 or not isinstance(e, (ast.Tuple, ast.List)):
                return None
            out: list[ast.expr] = []
            for x in e.elts:
                if isinstance(x, ast.Starred):
                    inner = x.value
                    if isinstance(inner, ast.Name) and inner.id in tuples:
                        inner = tuples[inner.id]
                    sub = keys_of(inner, depth - 1)
                    if sub is None:
                        return None
                    out += sub
                elif isinstance(x, (ast.Name, ast.Attribute)):
                    out.append(x)
                else:
                    return None
            return out

        count = 0
        for st in mod.tree.body:
            v = getattr(st, "value", None)
            if not isinstance(st, (ast.Assign, ast.AnnAssign)) or not isinstance(v, ast.Dict):
                continue
            nk: list = []
            nv: list = []
            for k, val in zip(v.keys, v.values):
                if k is None and isinstance(val, ast.Call) and dotted(val.func) == "dict.fromkeys" and len(val.args) == 2 and not val.keywords and isinstance(val.args[1], (ast.Name, ast.Attribute)):
                    ks = keys_of(val.args[0] if not isinstance(val.args[0], ast.Name) else tuples.get(val.args[0].id))  # type: ignore[arg-type]
                    if ks is not None:
                        for key in ks:
                            nk.append(clone(key))
                            nv.append(clone(val.args[1]))
                        count += 1
                        continue
                nk.append(k)
                nv.append(val)
            v.keys, v.values = nk, nv
        if count:
            ast.fix_missing_locations(mod.tree)
            log.append(f"{mod.name}: {count} dict.fromkeys(...) spread(s) in a registry display written out as entries")
    return log


# ---------------------------------------------------------------------------------------------- hoisted literals
def inline_module_constants(prog: Program) -> list[str]:
    """A private module-level name bound exactly once, to a literal (`_OLDEST_FIRST: Final = False`, a hoisted message), and never
    re-bound anywhere in its module is read as that literal where the module's functions use it (unless a function binds the
    same name locally)."""
    log: list[str] = []
    for mod in prog.modules.values():
        consts: dict[str, ast.Constant] = {}
        counts: dict[str, int] = {}
        for st in mod.tree.body:
            tgt = st.target if isinstance(st, ast.AnnAssign) else (st.targets[0] if isinstance(st, ast.Assign) and len(st.targets) == 1 else None)
            if isinstance(tgt, ast.Name):
                counts[tgt.id] = counts.get(tgt.id, 0) + 1
                v = getattr(st, "value", None)
                if isinstance(v, ast.Constant) and tgt.id.startswith("_") and not tgt.id.startswith("__") and isinstance(v.value, (bool, int, float, str, type(None))):
                    consts[tgt.id] = v
        for name in list(consts):
            stores = [n for n in ast.walk(mod.tree) if isinstance(n, ast.Name) and n.id == name and not isinstance(n.ctx, ast.Load)]
            if counts.get(name) != 1 or len(stores) != 1 or any(isinstance(n, (ast.Global, ast.Nonlocal)) and name in n.names for n in ast.walk(mod.tree)):
                del consts[name]
        if not consts:
            continue
        count = 0
        for fi in [f for f in prog.functions.values() if f.module is mod]:
            shadow = {a.arg for a in ast.walk(fi.node.args) if isinstance(a, ast.arg)}
            cur = fi.outer
            while cur is not None:
                shadow |= {a.arg for a in ast.walk(cur.node.args) if isinstance(a, ast.arg)} | prog.local_names(cur)
                cur = cur.outer

            class T(ast.NodeTransformer):
                def visit_FunctionDef(self, n, fi=fi):  # noqa: N802
                    return n if n is not fi.node else self.generic_visit(n)

                visit_AsyncFunctionDef = visit_FunctionDef
                visit_Lambda = lambda self, n: n  # noqa: E731

                def visit_Name(self, n: ast.Name, shadow=shadow):  # noqa: N802
                    nonlocal count
                    if isinstance(n.ctx, ast.Load) and n.id in consts and n.id not in shadow:
                        count += 1
                        return ast.copy_location(ast.Constant(value=consts[n.id].value), n)
                    return n

            # decorators / defaults / annotations are evaluated outside the function: only the body is rewritten
            fi.node.body = [T().visit(st) for st in fi.node.body]
        if count:
            ast.fix_missing_locations(mod.tree)
            log.append(f"{mod.name}: {count} use(s) of hoisted literal constant(s) {sorted(consts)} read as the literal")
    return log


# ---------------------------------------------------------------------------------------------- except*
def trystar_as_try(prog: Program) -> list[str]:
    """`try: ... except* X: ...` is read as `try: ... except X as g: ...` in which a bare `raise` raises a BaseExceptionGroup:
    what `except*` hands to its clause - and re-raises from it - is always an exception *group* (a naked exception that
    matches is wrapped first), never the exception object that arrived.  (Splitting of a group over several clauses is not
    modelled: every clause is treated as if it alone received the exception.)"""
    log: list[str] = []
    for mod in prog.modules.values():
        count = 0

        class T(ast.NodeTransformer):
            def visit_TryStar(self, n):  # noqa: N802
                nonlocal count
                self.generic_visit(n)
                count += 1
                for k, h in enumerate(n.handlers):
                    if h.name is None:
                        h.name = f"_group{k}"

                    class R(ast.NodeTransformer):
                        def visit_FunctionDef(self, x):  # noqa: N802
                            return x

                        visit_AsyncFunctionDef = visit_FunctionDef
                        visit_Lambda = visit_FunctionDef

                        def visit_ExceptHandler(self, x):  # noqa: N802 - a bare raise in a nested handler re-raises that one
                            return x

                        def visit_Raise(self, x: ast.Raise, h=h):  # noqa: N802
                            if x.exc is None:
                                return ast.copy_location(ast.Raise(exc=ast.Call(func=ast.Name(id="BaseExceptionGroup", ctx=ast.Load()), args=[ast.Constant(value=""), ast.List(elts=[ast.Name(id=h.name, ctx=ast.Load())], ctx=ast.Load())], keywords=[]), cause=None), x)
                            return x

                    h.body = [R().visit(b) for b in h.body]
                return ast.copy_location(ast.Try(body=n.body, handlers=n.handlers, orelse=n.orelse, finalbody=n.finalbody), n)

        mod.tree = T().visit(mod.tree)
        if count:
            ast.fix_missing_locations(mod.tree)
            log.append(f"{mod.name}: {count} `except*` statement(s) read as `except` whose clause receives (and re-raises) an exception group")
    return log


# ---------------------------------------------------------------------------------------------- bundled configuration
def split_record_attributes(prog: Program) -> list[str]:
    """`self._quota = _Quota(limit=limit, period=seconds)` - several configuration values kept as one private NamedTuple of the
    module, bound once in __init__ and only ever read field by field (`self._quota.limit`) - is read as one attribute per field:
    `self._limit = limit; self._period = seconds` and `self._limit` at the uses (when the class has no attribute of that name)."""
    log: list[str] = []
    for ci in list(prog.classes.values()):
        init = ci.method("__init__")
        if init is None:
            continue
        for attr, vals in list(ci.attr_val.items()):
            if len(vals) != 1 or not attr.startswith("_") or not isinstance(vals[0], ast.Call) or not isinstance(vals[0].func, ast.Name):
                continue
            fields = _namedtuple_fields(ci.module.tree, vals[0].func.id)
            elts = _tuple_elements(ci.module.tree, vals[0]) if fields else None
            if not fields or elts is None:
                continue
            uses = [n for n in ast.walk(ci.node) if isinstance(n, ast.Attribute) and n.attr == attr and isinstance(n.value, ast.Name)]
            parents = {id(c): p for p in ast.walk(ci.node) for c in ast.iter_child_nodes(p)}
            stores = [u for u in uses if not isinstance(u.ctx, ast.Load)]
            loads = [u for u in uses if isinstance(u.ctx, ast.Load)]
            if len(stores) != 1 or not loads:
                continue
            if not all(isinstance(parents.get(id(u)), ast.Attribute) and parents[id(u)].attr in fields and isinstance(parents[id(u)].ctx, ast.Load) for u in loads):
                continue
            new_names = {f: f"_{f}" for f in fields}
            if any(nn in ci.attr_val or nn in ci.attr_ann or nn in ci.methods for nn in new_names.values()):
                continue
            # the single store: an assignment statement in __init__
            st = next((x for x in ast.walk(init.node) if isinstance(x, (ast.Assign, ast.AnnAssign)) and getattr(x, "value", None) is vals[0]), None)
            blk_owner = parents.get(id(st)) if st is not None else None
            if st is None or blk_owner is None:
                continue
            selfname = stores[0].value.id
            repl = [ast.fix_missing_locations(ast.copy_location(ast.Assign(targets=[ast.Attribute(value=ast.Name(id=selfname, ctx=ast.Load()), attr=new_names[f], ctx=ast.Store())], value=e), st)) for f, e in zip(fields, elts)]
            done = False
            for fld in ("body", "orelse", "finalbody"):
                blk = getattr(blk_owner, fld, None)
                if isinstance(blk, list) and any(x is st for x in blk):
                    k = next(j for j, x in enumerate(blk) if x is st)
                    blk[k : k + 1] = repl
                    done = True
            if not done:
                continue
            for u in loads:
                p_ = parents[id(u)]
                p_.value = ast.copy_location(ast.Name(id=u.value.id, ctx=ast.Load()), u)  # self._quota.limit -> self._limit
                p_.attr = new_names[p_.attr]
            log.append(f"{ci.name}: record attribute `{attr}` read as one attribute per field {sorted(new_names.values())}")
    return log


# ---------------------------------------------------------------------------------------------- inherited plumbing
def materialise_inherited_methods(prog: Program) -> list[str]:
    """A class that inherits methods from a *private* base class of its own module (plumbing shared by sibling wrapper classes:
    a common `__init__` / `__get__`) is read with those methods written into it: what an instance runs is the method found
    through its MRO.  Methods that use `super()` / `__class__`, and names the subclass defines itself, are left alone."""
    log: list[str] = []
    for ci in list(prog.classes.values()):
        bases = [c for c in prog.mro(ci)[1:] if c.module is ci.module and c.name.startswith("_") and not c.name.startswith("__")]
        if not bases:
            continue
        own = {m.name for m in ci.node.body if isinstance(m, (ast.FunctionDef, ast.AsyncFunctionDef))} | {t.id for st in ci.node.body if isinstance(st, (ast.Assign, ast.AnnAssign)) for t in (st.targets if isinstance(st, ast.Assign) else [st.target]) if isinstance(t, ast.Name)}
        added = []
        for b in bases:
            for m in b.node.body:
                if not isinstance(m, (ast.FunctionDef, ast.AsyncFunctionDef)) or m.name in own:
                    continue
                if any(isinstance(x, ast.Name) and x.id in ("super", "__class__") for x in ast.walk(m)):
                    continue
                ci.node.body.append(clone(m))
                own.add(m.name)
                added.append(f"{b.name}.{m.name}")
        if added:
            ast.fix_missing_locations(ci.node)
            log.append(f"{ci.name}: inherited from its private base(s), read as its own: {added}")
    return log
