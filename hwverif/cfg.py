"""E4 - control-flow graphs with micro-nodes and exceptional edges, plus path queries (A1-A3).

One graph per function.  Calls, awaits, yields and comprehensions inside a statement become their
own nodes in evaluation order; short-circuit operators and conditional expressions become real
branches.  Every node that may raise has 'exc' edges to the handlers that may match, through
per-continuation copies of ``finally`` bodies / context-manager exits, to the distinguished RAISE
exit.  Queries are reachability problems on this graph with nodes/edges removed.
"""

from __future__ import annotations

import ast
import builtins
from collections import deque
from typing import Callable, Iterable

from . import AnalysisError
from .loader import FunctionInfo, Program, stmt_text, within

ANY = "*"  # any BaseException
ExcSet = frozenset  # of class names, or {ANY}

_EXTRA_HIERARCHY = {
    "CancelledError": "BaseException",
    "FuturesCancelledError": "Exception",  # concurrent.futures.CancelledError (normalize.distinguish_cancelled_errors)
    "MissingContext": "Exception",
    "MissingState": "Exception",
    "InvalidStateError": "Exception",
    "QueueEmpty": "Exception",
}


_BASE_HIERARCHY = dict(_EXTRA_HIERARCHY)


def register_package_exceptions(prog: Program) -> list[str]:
    """The exception classes the analysed tree itself defines, with the base each one names *in that tree*
    (a class moved under LookupError is caught by `except LookupError`).  Resets what an earlier tree registered."""
    _EXTRA_HIERARCHY.clear()
    _EXTRA_HIERARCHY.update(_BASE_HIERARCHY)
    found: dict[str, str] = {}
    for ci in prog.classes.values():
        for b in ci.node.bases:
            r = prog.resolve_dotted(ci.module, b) or ""
            base = r.rsplit(".", 1)[-1] if r else ""
            if base:
                found.setdefault(ci.name, base)
                break
    log = []
    changed = True
    known = lambda n: n in _EXTRA_HIERARCHY or (isinstance(getattr(builtins, n, None), type) and issubclass(getattr(builtins, n), BaseException))  # noqa: E731
    while changed:
        changed = False
        for name, base in found.items():
            if known(base) and _EXTRA_HIERARCHY.get(name) != base and not (name in _BASE_HIERARCHY and name in ("CancelledError", "FuturesCancelledError", "InvalidStateError", "QueueEmpty")):
                _EXTRA_HIERARCHY[name] = base
                log.append(f"{name}({base})")
                changed = True
    return log


def exc_is_sub(a: str, b: str) -> bool:
    """issubclass(a, b) over builtin exception names (+ a few asyncio / repo ones)."""
    if a == b or b == "BaseException":
        return True
    seen = set()
    cur = a
    while cur and cur not in seen:
        seen.add(cur)
        if cur == b:
            return True
        if cur in _EXTRA_HIERARCHY:
            cur = _EXTRA_HIERARCHY[cur]
            continue
        cls = getattr(builtins, cur, None)
        if isinstance(cls, type) and issubclass(cls, BaseException):
            tb = getattr(builtins, b, None)
            if isinstance(tb, type):
                return issubclass(cls, tb)
            return False
        return False
    return False


def may_match(s: ExcSet, handler_classes: Iterable[str]) -> bool:
    hs = list(handler_classes)
    if ANY in s:
        return True
    return any(exc_is_sub(c, h) or exc_is_sub(h, c) for c in s for h in hs)


def remaining(s: ExcSet, handler_classes: Iterable[str]) -> ExcSet:
    hs = list(handler_classes)
    if ANY in s:
        return frozenset() if "BaseException" in hs else s
    return frozenset(c for c in s if not any(exc_is_sub(c, h) for h in hs))


class Node:
    __slots__ = ("id", "kind", "ast", "stmt", "label", "succ", "pred", "raises", "suspends", "meta")

    def __init__(self, nid: int, kind: str, node: ast.AST | None, stmt: ast.AST | None, label: str) -> None:
        self.id = nid
        self.kind = kind
        self.ast = node
        self.stmt = stmt
        self.label = label
        self.succ: list[tuple[Node, str]] = []
        self.pred: list[tuple[Node, str]] = []
        self.raises: ExcSet = frozenset()
        self.suspends = False
        self.meta: dict = {}

    def __repr__(self) -> str:
        return f"<{self.id}:{self.kind}:{self.label}>"

    @property
    def line(self) -> int:
        return getattr(self.ast, "lineno", 0) or getattr(self.stmt, "lineno", 0) or 0

    def out(self, label: str | None = None) -> list["Node"]:
        return [t for t, lab in self.succ if label is None or lab == label]


Dangling = list  # list[tuple[Node, str]]


class _Frame:
    pass


class _TryBody(_Frame):
    def __init__(self, handlers: list[tuple[list[str], Node]]) -> None:
        self.handlers = handlers


class _Cleanup(_Frame):
    """finally body or context-manager exit: every abrupt continuation passes through a copy."""

    def __init__(self, build: Callable[[str], tuple[Node, Dangling]]) -> None:
        self.build = build
        self.copies: dict[object, Node] = {}


class _Loop(_Frame):
    def __init__(self, head: Node) -> None:
        self.head = head
        self.breaks: Dangling = []


class _Inline(_Frame):
    """body of an inlined helper: its `return`s (rewritten to assignments tagged _inline_return) leave the block"""

    def __init__(self) -> None:
        self.returns: Dangling = []


def _has_effects(e: ast.AST) -> bool:
    return any(
        isinstance(n, (ast.Call, ast.Await, ast.Yield, ast.YieldFrom, ast.NamedExpr, ast.ListComp, ast.SetComp, ast.DictComp, ast.GeneratorExp))
        for n in ast.walk(e)
    )


class CFG:
    def __init__(self, prog: Program, fi: FunctionInfo, call_raises: Callable[[FunctionInfo, ast.Call], ExcSet]) -> None:
        self.prog = prog
        self.fi = fi
        self.nodes: list[Node] = []
        self._call_raises = call_raises
        self.entry = self._new("entry", None, None, "ENTRY")
        self.ret = self._new("exit-return", None, None, "RETURN")
        self.rse = self._new("exit-raise", None, None, "RAISE")
        self.frames: list[_Frame] = []
        self.escapes: ExcSet = frozenset()  # exception classes that can leave the function
        self._cur_stmt: ast.AST | None = None
        self._handler_stack: list[ast.ExceptHandler] = []
        self.is_async = fi.is_async
        self.is_gen = fi.is_generator()
        end = self._body(fi.node.body, [(self.entry, "")])
        self._connect(end, self.ret)
        for n in self.nodes:
            for t, lab in n.succ:
                t.pred.append((n, lab))

    # ------------------------------------------------------------------ construction helpers
    def _new(self, kind: str, node: ast.AST | None, stmt: ast.AST | None, label: str | None = None) -> Node:
        n = Node(len(self.nodes), kind, node, stmt, label if label is not None else stmt_text(node, 70))
        self.nodes.append(n)
        return n

    @staticmethod
    def _connect(d: Dangling, node: Node) -> None:
        for src, lab in d:
            if (node, lab) not in src.succ:
                src.succ.append((node, lab))

    def _emit(self, kind: str, node: ast.AST | None, d: Dangling, raises: ExcSet = frozenset(), suspends: bool = False, label: str | None = None) -> Node:
        n = self._new(kind, node, self._cur_stmt, label)
        n.suspends = suspends
        if self._handler_stack:
            n.meta["handler"] = self._handler_stack[-1]
        self._connect(d, n)
        if raises:
            self._raise_from(n, raises)
        return n

    def _lookup_error_anticipated(self) -> bool:
        return any(isinstance(f, _TryBody) and any(may_match(frozenset({"KeyError"}), classes) for classes, _ in f.handlers) for f in self.frames)

    def _raise_from(self, n: Node, s: ExcSet) -> None:
        n.raises = n.raises | s
        for t in self._exc_targets(len(self.frames) - 1, s):
            if (t, "exc") not in n.succ:
                n.succ.append((t, "exc"))

    def _exc_targets(self, i: int, s: ExcSet) -> list[Node]:
        while i >= 0:
            f = self.frames[i]
            if isinstance(f, _TryBody):
                targets = [h for classes, h in f.handlers if may_match(s, classes)]
                rest = remaining(s, [c for classes, _ in f.handlers for c in classes])
                if not rest:
                    return targets
                return targets + self._exc_targets(i - 1, rest)
            if isinstance(f, _Cleanup):
                return [self._cleanup_copy(f, i, ("exc", s))]
            i -= 1
        self.escapes = self.escapes | s
        return [self.rse]

    def _cleanup_copy(self, f: _Cleanup, i: int, key: tuple) -> Node:
        if key in f.copies:
            return f.copies[key]
        saved, saved_stmt, saved_h = self.frames, self._cur_stmt, self._handler_stack
        self.frames = saved[:i]
        self._handler_stack = []
        try:
            entry, ends = f.build(key[0])
            f.copies[key] = entry
            if key[0] == "exc":
                entry.meta["pending"] = key[1]  # the exception classes that may be propagating through this cleanup
                # the pending exception continues to propagate after the cleanup completed normally
                rr = self._new("reraise", None, self._cur_stmt, "propagate")
                rr.raises = key[1]
                self._connect(ends, rr)
                for t in self._exc_targets(i - 1, key[1]):
                    if (t, "reraise") not in rr.succ:
                        rr.succ.append((t, "reraise"))
            else:
                self._jump(ends, i - 1, key[0])
        finally:
            self.frames, self._cur_stmt, self._handler_stack = saved, saved_stmt, saved_h
        return entry

    def _jump(self, d: Dangling, i: int, kind: str) -> None:
        while i >= 0:
            f = self.frames[i]
            if isinstance(f, _Cleanup):
                self._connect(d, self._cleanup_copy(f, i, (kind,)))
                return
            if isinstance(f, _Loop) and kind in ("break", "continue"):
                if kind == "break":
                    f.breaks.extend(d)
                else:
                    self._connect(d, f.head)
                return
            if isinstance(f, _Inline) and kind == "inline-return":
                f.returns.extend(d)
                return
            i -= 1
        if kind == "inline-return":
            kind = "return"
        if kind != "return":
            raise AnalysisError(f"{kind} outside loop in {self.fi.qualname}")
        self._connect(d, self.ret)

    # ------------------------------------------------------------------ expressions
    def _expr(self, e: ast.AST | None, d: Dangling) -> Dangling:
        if e is None:
            return d
        if isinstance(e, ast.Call):
            f = e.func
            if isinstance(f, ast.Attribute):
                d = self._expr(f.value, d)
            elif not isinstance(f, ast.Name):
                d = self._expr(f, d)
            for a in e.args:
                d = self._expr(a, d)
            for k in e.keywords:
                d = self._expr(k.value, d)
            n = self._emit("call", e, d, self._call_raises(self.fi, e))
            return [(n, "")]
        if isinstance(e, ast.Await):
            d = self._expr(e.value, d)
            n = self._emit("await", e, d, frozenset({ANY}), suspends=True)
            return [(n, "")]
        if isinstance(e, (ast.Yield, ast.YieldFrom)):
            d = self._expr(e.value, d)
            n = self._emit("yield", e, d, frozenset({ANY}), suspends=True)
            return [(n, "")]
        if isinstance(e, ast.BoolOp):
            if not any(_has_effects(v) for v in e.values[1:]):
                for v in e.values:
                    d = self._expr(v, d)
                return d
            out: Dangling = []
            for idx, v in enumerate(e.values):
                d = self._expr(v, d)
                if idx == len(e.values) - 1:
                    out.extend(d)
                    break
                t = self._emit("test", v, d)
                t.meta["value_context"] = True
                if isinstance(e.op, ast.Or):
                    out.append((t, "T"))
                    d = [(t, "F")]
                else:
                    out.append((t, "F"))
                    d = [(t, "T")]
            return out
        if isinstance(e, ast.IfExp):
            t, f = self._cond(e.test, d)
            a = self._expr(e.body, t)
            b = self._expr(e.orelse, f)
            return a + b
        if isinstance(e, ast.NamedExpr):
            return self._expr(e.value, d)
        if isinstance(e, (ast.ListComp, ast.SetComp, ast.DictComp, ast.GeneratorExp)):
            d = self._expr(e.generators[0].iter, d)
            inner_await = any(isinstance(n, ast.Await) for n in ast.walk(e)) or any(g.is_async for g in e.generators)
            n = self._emit("comp", e, d, frozenset({ANY}), suspends=inner_await)
            return [(n, "")]
        if isinstance(e, ast.Lambda):
            return d
        if isinstance(e, ast.Dict):
            for k, v in zip(e.keys, e.values):
                d = self._expr(k, d)
                d = self._expr(v, d)
            return d
        if isinstance(e, ast.Compare):
            d = self._expr(e.left, d)
            for c in e.comparators:
                d = self._expr(c, d)
            return d
        if isinstance(e, (ast.Constant, ast.Name)):
            return d
        if isinstance(e, ast.BinOp) and isinstance(e.op, ast.Mod) and not (isinstance(e.left, ast.Constant) and isinstance(e.left.value, (int, float))) and not (isinstance(e.right, ast.Constant) and isinstance(e.right.value, (int, float))):
            # `text % values` renders the values (their __str__ / __repr__ / __format__ run, mismatches raise): a raising operation
            d = self._expr(e.left, d)
            d = self._expr(e.right, d)
            n = self._emit("render", e, d, frozenset({ANY}))
            return [(n, "")]
        if isinstance(e, ast.Subscript) and isinstance(e.ctx, ast.Load):
            d = self._expr(e.value, d)
            d = self._expr(e.slice, d)
            # an item lookup is a raising operation where the code itself anticipates it: inside a try whose handler
            # can catch KeyError / IndexError (elsewhere lookups are treated as total, like attribute reads)
            if self._lookup_error_anticipated():
                n = self._emit("subscript", e, d, frozenset({"KeyError", "IndexError"}))
                return [(n, "")]
            return d
        for child in ast.iter_child_nodes(e):
            if isinstance(child, (ast.expr, ast.keyword, ast.comprehension)):
                d = self._expr(child, d)
        return d

    def _cond(self, e: ast.expr, d: Dangling) -> tuple[Dangling, Dangling]:
        if isinstance(e, ast.BoolOp):
            t_out: Dangling = []
            f_out: Dangling = []
            for idx, v in enumerate(e.values):
                t, f = self._cond(v, d)
                last = idx == len(e.values) - 1
                if isinstance(e.op, ast.And):
                    f_out.extend(f)
                    if last:
                        t_out.extend(t)
                    d = t
                else:
                    t_out.extend(t)
                    if last:
                        f_out.extend(f)
                    d = f
            return t_out, f_out
        if isinstance(e, ast.UnaryOp) and isinstance(e.op, ast.Not):
            t, f = self._cond(e.operand, d)
            return f, t
        if isinstance(e, ast.Constant) and isinstance(e.value, bool):
            n = self._emit("test", e, d)
            return ([(n, "T")], []) if e.value else ([], [(n, "F")])
        d = self._expr(e, d)
        n = self._emit("test", e, d)
        return [(n, "T")], [(n, "F")]

    # ------------------------------------------------------------------ statements
    def _body(self, body: list[ast.stmt], d: Dangling) -> Dangling:
        for s in body:
            d = self._stmt(s, d)
        return d

    def _stmt(self, s: ast.stmt, d: Dangling) -> Dangling:
        prev = self._cur_stmt
        self._cur_stmt = s
        try:
            return self._stmt_inner(s, d)
        finally:
            self._cur_stmt = prev

    def _stmt_inner(self, s: ast.stmt, d: Dangling) -> Dangling:
        if not d:
            return d  # unreachable code is not represented
        if isinstance(s, (ast.Assign, ast.AnnAssign, ast.AugAssign)):
            if s.value is not None:
                d = self._expr(s.value, d)
            targets = s.targets if isinstance(s, ast.Assign) else [s.target]
            raises: ExcSet = frozenset()
            for t in targets:
                for sub in ast.walk(t):
                    if isinstance(sub, ast.Subscript):
                        d = self._expr(sub.slice, d)
                if isinstance(t, ast.Subscript):
                    raises = frozenset({"KeyError", "IndexError", "TypeError"})
                elif isinstance(t, ast.Attribute):
                    raises = raises  # attribute stores on own objects are treated as non-raising
            if isinstance(s, ast.AnnAssign) and s.value is None:
                return d
            n = self._emit("stmt", s, d, raises)
            if getattr(s, "_inline_return", False):
                n.meta["inline_return"] = True
                self._jump([(n, "")], len(self.frames) - 1, "inline-return")
                return []
            return [(n, "")]
        if isinstance(s, ast.Expr):
            if isinstance(s.value, ast.Constant):
                return d
            d = self._expr(s.value, d)
            return d
        if isinstance(s, ast.Pass):
            n = self._emit("stmt", s, d)
            return [(n, "")]
        if isinstance(s, ast.Delete):
            raises = frozenset()
            for t in s.targets:
                if isinstance(t, ast.Subscript):
                    d = self._expr(t.value, d)
                    d = self._expr(t.slice, d)
                    raises = frozenset({"KeyError", "IndexError"})
            n = self._emit("stmt", s, d, raises)
            return [(n, "")]
        if isinstance(s, ast.Return):
            d = self._expr(s.value, d)
            n = self._emit("return", s, d)
            self._jump([(n, "")], len(self.frames) - 1, "return")
            return []
        if isinstance(s, ast.Raise):
            d = self._expr(s.exc, d)
            d = self._expr(s.cause, d)
            n = self._emit("raise", s, d, self._raise_set(s))
            return []
        if isinstance(s, ast.Assert):
            t, f = self._cond(s.test, d)
            for node, _ in f:
                node.meta["assert"] = s
            for node, _ in t:
                node.meta["assert"] = s
            f = self._expr(s.msg, f)
            # An assertion states what the author holds to be impossible; `python -O` removes it.  Path rules therefore do not
            # follow its failure (a dead end here): the library's behaviour may not depend on it.  The node stays, so rules that
            # are *about* an assertion (re-entrance guards, C09.6 preconditions, decided-false assertions) can find it.
            n = self._emit("assert-fail", s, f, frozenset())
            n.raises = frozenset({"AssertionError"})
            n.meta["assert"] = s
            return t
        if isinstance(s, ast.If) and getattr(s, "_inline", None):
            fr = _Inline()
            self.frames.append(fr)
            end = self._body(s.body, d)
            self.frames.pop()
            return end + fr.returns
        if isinstance(s, ast.If):
            t, f = self._cond(s.test, d)
            a = self._body(s.body, t)
            b = self._body(s.orelse, f) if s.orelse else f
            return a + b
        if isinstance(s, ast.While):
            head = self._emit("loop-head", s, d, label="while " + stmt_text(s.test, 50))
            loop = _Loop(head)
            t, f = self._cond(s.test, [(head, "")])
            self.frames.append(loop)
            end = self._body(s.body, t)
            self.frames.pop()
            self._connect(end, head)
            after = self._body(s.orelse, f) if s.orelse else f
            return after + loop.breaks
        if isinstance(s, (ast.For, ast.AsyncFor)):
            d = self._expr(s.iter, d)
            is_async = isinstance(s, ast.AsyncFor)
            head = self._emit("for-iter", s, d, frozenset({ANY}), suspends=is_async)
            loop = _Loop(head)
            self.frames.append(loop)
            end = self._body(s.body, [(head, "T")])
            self.frames.pop()
            self._connect(end, head)
            after = self._body(s.orelse, [(head, "F")]) if s.orelse else [(head, "F")]
            return after + loop.breaks
        if isinstance(s, (ast.Break, ast.Continue)):
            kind = "break" if isinstance(s, ast.Break) else "continue"
            n = self._emit(kind, s, d)
            self._jump([(n, "")], len(self.frames) - 1, kind)
            return []
        if isinstance(s, ast.Try):
            return self._try(s, d)
        if isinstance(s, (ast.With, ast.AsyncWith)):
            return self._with(s, list(s.items), d)
        if isinstance(s, ast.Match):
            return self._match(s, d)
        if isinstance(s, (ast.FunctionDef, ast.AsyncFunctionDef, ast.ClassDef)):
            for deco in s.decorator_list:
                d = self._expr(deco, d)
            n = self._emit("def", s, d)
            return [(n, "")]
        if isinstance(s, (ast.Import, ast.ImportFrom, ast.Global, ast.Nonlocal)):
            n = self._emit("stmt", s, d)
            return [(n, "")]
        raise AnalysisError(f"unsupported statement {type(s).__name__} at line {s.lineno} in {self.fi.qualname}")

    def _raise_set(self, s: ast.Raise) -> ExcSet:
        if s.exc is None:
            if self._handler_stack:
                return self._handler_classes_set(self._handler_stack[-1])
            return frozenset({ANY})
        e = s.exc
        if isinstance(e, ast.Call):
            e = e.func
        if isinstance(e, ast.Name):
            for h in reversed(self._handler_stack):
                if h.name == e.id:
                    return self._handler_classes_set(h)
            r = self.prog.resolve_global(self.fi.module, e.id)
            name = (r or e.id).rsplit(".", 1)[-1]
            if name[:1].isupper():
                return frozenset({name})
        elif isinstance(e, ast.Attribute) and e.attr[:1].isupper():
            return frozenset({e.attr})
        return frozenset({ANY})

    def handler_classes(self, h: ast.ExceptHandler) -> list[str]:
        if h.type is None:
            return ["BaseException"]
        elts = h.type.elts if isinstance(h.type, ast.Tuple) else [h.type]
        out = []
        for e in elts:
            r = self.prog.resolve_dotted(self.fi, e)
            if r is None:
                out.append("BaseException")  # unknown class expression: assume it may catch anything
            else:
                out.append(r.rsplit(".", 1)[-1])
        return out

    def _handler_classes_set(self, h: ast.ExceptHandler) -> ExcSet:
        cs = self.handler_classes(h)
        if "BaseException" in cs:
            return frozenset({ANY})
        return frozenset(cs)

    def _try(self, s: ast.Try, d: Dangling) -> Dangling:
        cleanup: _Cleanup | None = None
        if s.finalbody:

            def build(kind: str, s: ast.Try = s) -> tuple[Node, Dangling]:
                entry = self._new("finally", s, s, f"finally[{kind}]")
                entry.meta["continuation"] = kind
                saved = self._cur_stmt
                ends = self._body(s.finalbody, [(entry, "")])
                self._cur_stmt = saved
                return entry, ends

            cleanup = _Cleanup(build)
            self.frames.append(cleanup)
        hnodes: list[tuple[list[str], Node]] = []
        for h in s.handlers:
            hn = self._new("handler", h, h)
            hnodes.append((self.handler_classes(h), hn))
        self.frames.append(_TryBody(hnodes))
        body_end = self._body(s.body, d)
        self.frames.pop()
        ends: Dangling = self._body(s.orelse, body_end) if s.orelse else body_end
        for (classes, hn), h in zip(hnodes, s.handlers):
            self._handler_stack.append(h)
            prev = self._cur_stmt
            self._cur_stmt = h
            ends = ends + self._body(h.body, [(hn, "")])
            self._cur_stmt = prev
            self._handler_stack.pop()
        if cleanup is not None:
            self.frames.pop()
            if ends:
                entry, fin_ends = cleanup.build("normal")
                self._connect(ends, entry)
                return fin_ends
            return []
        return ends

    def _with(self, s: ast.With | ast.AsyncWith, items: list[ast.withitem], d: Dangling) -> Dangling:
        if not items:
            return self._body(s.body, d)
        item, rest = items[0], items[1:]
        is_async = isinstance(s, ast.AsyncWith)
        d = self._expr(item.context_expr, d)
        enter = self._emit("with-enter", item, d, frozenset({ANY}), suspends=is_async, label="enter " + stmt_text(item.context_expr, 50))
        enter.meta["with"] = s

        def build(kind: str) -> tuple[Node, Dangling]:
            n = self._new("with-exit", item, s, f"exit[{kind}] " + stmt_text(item.context_expr, 50))
            n.suspends = is_async
            n.meta["continuation"] = kind
            n.meta["with"] = s
            self._raise_from(n, frozenset({ANY}))
            return n, [(n, "")]

        cleanup = _Cleanup(build)
        self.frames.append(cleanup)
        ends = self._with(s, rest, [(enter, "")])
        self.frames.pop()
        if ends:
            n, out = build("normal")
            self._connect(ends, n)
            return out
        return []

    def _match(self, s: ast.Match, d: Dangling) -> Dangling:
        d = self._expr(s.subject, d)
        subj = self._emit("match-subject", s, d, label="match " + stmt_text(s.subject, 50))
        cur: Dangling = [(subj, "")]
        ends: Dangling = []
        for case in s.cases:
            if not cur:
                break
            prev = self._cur_stmt
            self._cur_stmt = case
            pn = self._emit("match-case", case, cur, label=stmt_text(case, 60))
            irrefutable = self._irrefutable(case.pattern)
            t: Dangling = [(pn, "T")]
            f: Dangling = [] if irrefutable else [(pn, "F")]
            if case.guard is not None:
                t, gf = self._cond(case.guard, t)
                f = f + gf
            self._cur_stmt = prev
            ends = ends + self._body(case.body, t)
            cur = f
        return ends + cur

    @staticmethod
    def _irrefutable(p: ast.pattern) -> bool:
        if isinstance(p, ast.MatchAs):
            return p.pattern is None or CFG._irrefutable(p.pattern)
        if isinstance(p, ast.MatchOr):
            return any(CFG._irrefutable(x) for x in p.patterns)
        return False

    # ------------------------------------------------------------------ queries (A3)
    def find(self, pred: Callable[[Node], bool]) -> list[Node]:
        return [n for n in self.nodes if pred(n)]

    def calls(self, pred: Callable[[ast.Call], bool] | None = None) -> list[Node]:
        return [n for n in self.nodes if n.kind == "call" and (pred is None or pred(n.ast))]  # type: ignore[arg-type]

    def node_of(self, a: ast.AST) -> list[Node]:
        return [n for n in self.nodes if n.ast is a]

    def search(
        self,
        starts: Iterable[Node],
        goal: Callable[[Node], bool],
        *,
        skip_node: Callable[[Node], bool] | None = None,
        skip_edge: Callable[[Node, Node, str], bool] | None = None,
        include_start: bool = False,
    ) -> list[Node] | None:
        """BFS; returns a witness path to the first node satisfying `goal`, avoiding `skip_node`
        nodes (never entered) and `skip_edge` edges.  Start nodes themselves are not tested
        unless include_start."""
        prev: dict[int, Node | None] = {}
        q: deque[Node] = deque()
        for s in starts:
            if s.id not in prev:
                prev[s.id] = None
                q.append(s)
                if include_start and goal(s):
                    return [s]
        while q:
            n = q.popleft()
            for t, lab in n.succ:
                if skip_edge is not None and skip_edge(n, t, lab):
                    continue
                if t.id in prev:
                    continue
                if skip_node is not None and skip_node(t):
                    continue
                prev[t.id] = n
                if goal(t):
                    path = [t]
                    cur: Node | None = n
                    while cur is not None:
                        path.append(cur)
                        cur = prev[cur.id]
                    return list(reversed(path))
                q.append(t)
        return None

    def reachable(self, starts: Iterable[Node], *, skip_node=None, skip_edge=None) -> set[int]:
        seen: set[int] = set()
        q: deque[Node] = deque()
        for s in starts:
            if s.id not in seen:
                seen.add(s.id)
                q.append(s)
        while q:
            n = q.popleft()
            for t, lab in n.succ:
                if skip_edge is not None and skip_edge(n, t, lab):
                    continue
                if t.id in seen or (skip_node is not None and skip_node(t)):
                    continue
                seen.add(t.id)
                q.append(t)
        return seen

    @staticmethod
    def no_exc_from(raising: Callable[[Node], bool]) -> Callable[[Node, Node, str], bool]:
        """skip_edge predicate: ignore exceptional edges leaving nodes for which raising() is False."""
        return lambda n, t, lab: lab == "exc" and not raising(n)

    def must_pass(
        self,
        p: Callable[[Node], bool],
        *,
        starts: Iterable[Node] | None = None,
        exits: tuple[str, ...] = ("exit-return", "exit-raise"),
        raising: Callable[[Node], bool] | None = None,
        skip_edge: Callable[[Node, Node, str], bool] | None = None,
    ) -> list[Node] | None:
        """None if every path from starts to an exit executes (attempts) a node matching p;
        otherwise a witness path that avoids p."""
        se = skip_edge
        if raising is not None:
            base = self.no_exc_from(raising)
            se = base if skip_edge is None else (lambda n, t, lab: base(n, t, lab) or skip_edge(n, t, lab))
        ss = list(starts) if starts is not None else [self.entry]
        ss = [s for s in ss if not p(s)]
        for s0 in ss:
            if s0.kind in exits:
                return [s0]
        return self.search(ss, lambda n: n.kind in exits, skip_node=p, skip_edge=se, include_start=False)

    def dominated_by_branch(self, target: Node, test: Callable[[Node], bool], polarity: str, raising=None) -> list[Node] | None:
        """None if every ENTRY->target path takes the `polarity` edge of a test node matching
        `test`; otherwise a witness path."""
        base = (lambda n, t, lab: False) if raising is None else self.no_exc_from(raising)
        return self.search(
            [self.entry],
            lambda n: n is target,
            skip_edge=lambda n, t, lab: base(n, t, lab) or (n.kind in ("test", "match-case") and test(n) and lab == polarity),
        )

    def ordered(self, first: Callable[[Node], bool], then: Callable[[Node], bool], *, starts=None, raising=None) -> list[Node] | None:
        """None if no path from starts reaches a `then` node without passing a `first` node."""
        se = None if raising is None else self.no_exc_from(raising)
        ss = [s for s in (list(starts) if starts is not None else [self.entry]) if not first(s)]
        return self.search(ss, then, skip_node=lambda n: first(n) and not then(n), skip_edge=se, include_start=True)

    def suspension_between(self, a: Callable[[Node], bool], b: Callable[[Node], bool]) -> list[Node] | None:
        """A path a -> ... suspension ... -> b (exclusive of a and b), or None (ATOMIC holds).
        Paths are cut at further `a` nodes? No: every path from any a-node to any b-node counts."""
        for start in self.find(a):
            # phase 1: reach a suspension node without passing b
            sus = self.search([start], lambda n: n.suspends and not b(n), skip_node=lambda n: b(n) and not n.suspends)
            if sus is None:
                continue
            # collect all suspension nodes reachable from start w/o passing b
            reach = self.reachable([start], skip_node=b)
            for sid in reach:
                sn = self.nodes[sid]
                if sn is start or not sn.suspends:
                    continue
                p2 = self.search([sn], b)
                if p2 is not None:
                    p1 = self.search([start], lambda n, sn=sn: n is sn, skip_node=b) or [start, sn]
                    return p1 + p2[1:]
        return None

    def count_range(self, p: Callable[[Node], bool], start: Node, stop: Callable[[Node], bool], *, skip_edge=None) -> tuple[int, int]:
        """(min, max) number of p-nodes on acyclic paths from start (exclusive) to the first stop
        node (exclusive).  Back edges are ignored."""
        order: dict[int, int] = {}
        memo: dict[int, tuple[int, int] | None] = {}
        onstack: set[int] = set()

        def go(n: Node) -> tuple[int, int] | None:
            if n.id in memo:
                return memo[n.id]
            if n.id in onstack:
                return None
            onstack.add(n.id)
            best: tuple[int, int] | None = None
            for t, lab in n.succ:
                if skip_edge is not None and skip_edge(n, t, lab):
                    continue
                if stop(t):
                    r: tuple[int, int] | None = (0, 0)
                else:
                    sub = go(t)
                    if sub is None:
                        continue
                    inc = 1 if p(t) else 0
                    r = (sub[0] + inc, sub[1] + inc)
                if r is None:
                    continue
                best = r if best is None else (min(best[0], r[0]), max(best[1], r[1]))
            onstack.discard(n.id)
            memo[n.id] = best
            return best

        r = go(start)
        return r if r is not None else (-1, -1)

    def exc_succ_for(self, n: Node, cls: str) -> list[Node]:
        """Where an exception of class `cls` raised at n goes first: the first handler (in order)
        that definitely catches it, else the pass-through target (cleanup copy / outer / RAISE)."""
        out: list[Node] = []
        for t, lab in n.succ:
            if lab != "exc":
                continue
            if t.kind == "handler":
                classes = self.handler_classes(t.ast)  # type: ignore[arg-type]
                if any(exc_is_sub(cls, c) for c in classes):
                    out.append(t)
                    return out
                if any(exc_is_sub(c, cls) for c in classes):
                    out.append(t)
                continue
            out.append(t)
        return out

    def exc_route(self, cls: str) -> Callable[["Node", "Node", str], bool]:
        """Edge filter for following ONE propagating exception of class `cls`: at every node the exceptional /
        re-raising edges that this exception cannot take (a later handler, the way out past a handler that catches it)
        are skipped."""
        memo: dict[tuple[int, str], set[int]] = {}

        def allowed(a: Node, lab: str) -> set[int]:
            key = (a.id, lab)
            if key not in memo:
                out: set[int] = set()
                for t, l2 in a.succ:
                    if l2 != lab:
                        continue
                    if t.kind == "handler":
                        classes = self.handler_classes(t.ast)  # type: ignore[arg-type]
                        if any(exc_is_sub(cls, c) for c in classes):
                            out.add(t.id)
                            break
                        if any(exc_is_sub(c, cls) for c in classes):
                            out.add(t.id)
                        continue
                    out.add(t.id)
                memo[key] = out
            return memo[key]

        def skip(a: Node, b: Node, lab: str) -> bool:
            return lab in ("exc", "reraise") and b.id not in allowed(a, lab)

        return skip

    # ------------------------------------------------------------------ presentation
    @staticmethod
    def show_path(path: list[Node] | None, limit: int = 14) -> str:
        if not path:
            return "<no path>"
        parts = []
        for a, b in zip(path, path[1:]):
            lab = next((l for t, l in a.succ if t is b), "")
            arrow = {"": "->", "T": "-T->", "F": "-F->", "exc": "-raises->", "reraise": "-propagates->"}[lab]
            parts.append(f"{a.kind}:{a.label} {arrow}")
        parts.append(f"{path[-1].kind}:{path[-1].label}")
        if len(parts) > limit:
            parts = parts[: limit // 2] + ["..."] + parts[-limit // 2 :]
        return " ".join(parts)

    def stats(self) -> tuple[int, int]:
        return len(self.nodes), sum(len(n.succ) for n in self.nodes)
