"""Analysis context: program + CFG cache + call oracle (E3 summaries) + obligations/findings."""

from __future__ import annotations

import ast
import os
from dataclasses import dataclass, field

from . import AnalysisError
from .cfg import ANY, CFG, ExcSet, Node
from .facts import NO_RAISE, RAISES
from .loader import FunctionInfo, ModuleInfo, Program, stmt_text


@dataclass
class Finding:
    prop: str
    rule: str
    at: str  # qualified function / class / module
    construct: str  # normalised statement text (the key, never the rule)
    file: str
    line: int
    message: str
    path: str = ""
    known: str | None = None  # description from KNOWN_FINDINGS.txt when suppressed

    @property
    def key(self) -> tuple[str, str, str, str]:
        return (self.prop, self.rule, self.at, self.construct)

    def as_dict(self) -> dict:
        return {
            "property": self.prop,
            "rule": self.rule,
            "at": self.at,
            "construct": self.construct,
            "file": self.file,
            "line": self.line,
            "message": self.message,
            "path": self.path,
            "known": self.known,
        }


@dataclass
class Obligation:
    id: str
    kind: str
    rule: str
    anchors: list[str] = field(default_factory=list)
    instances: list[str] = field(default_factory=list)
    findings: list[Finding] = field(default_factory=list)
    notes: list[str] = field(default_factory=list)
    an: "Analysis | None" = None

    @property
    def prop(self) -> str:
        return self.id.split(".")[0]

    def inst(self, fi: FunctionInfo | None, node: ast.AST | None, note: str = "") -> None:
        """Record one construct this obligation actually inspected."""
        where = fi.short if fi is not None else "<package>"
        text = stmt_text(node, 90) if node is not None else ""
        self.instances.append(f"{where}: {text}" + (f"  [{note}]" if note else ""))

    def fail(
        self,
        fi: FunctionInfo | None,
        node: ast.AST | None,
        message: str,
        path: str = "",
        mod: ModuleInfo | None = None,
        at: str | None = None,
        construct: str | None = None,
    ) -> None:
        m = fi.module if fi is not None else mod
        f = Finding(
            prop=self.prop,
            rule=self.id,
            at=at or (fi.qualname if fi is not None else (m.name if m else "<package>")),
            construct=construct or (stmt_text(node) if node is not None else "<function>"),
            file=m.relpath if m else "?",
            line=(getattr(node, "lineno", 0) or getattr(getattr(node, "pattern", None), "lineno", 0)) if node is not None else (fi.node.lineno if fi else 0),
            message=message,
            path=path,
        )
        if f.key not in {x.key for x in self.findings}:
            self.findings.append(f)

    def missing(self, fi: FunctionInfo | None, node: ast.AST | None, message: str, path: str = "", also: "list[FunctionInfo] | None" = None) -> None:
        """A required mechanism was not found in `fi`.  That is a violation - unless the function hands
        work to helpers the normaliser could not see through (private same-module helpers that are not
        rule anchors and could not be inlined): then the mechanism may live there and the honest answer
        is 'unrecognised idiom' (ANALYSIS-ERROR, exit 2), not an alarm."""
        opaque: list[str] = []
        if self.an is not None:
            for f in [fi, *(also or [])]:
                if f is not None:
                    opaque += self.an.opaque_helpers(f)
        if opaque:
            raise AnalysisError(f"{self.id}: {message} - but {fi.short if fi else '?'} delegates to helper(s) {sorted(set(opaque))} that could not be inlined; unrecognised idiom")
        self.fail(fi, node, message, path)

    def note(self, text: str) -> None:
        self.notes.append(text)

    @property
    def discharged(self) -> bool:
        return all(f.known is not None for f in self.findings)


class Analysis:
    def __init__(self, repo: str, floors: bool = True) -> None:
        self.repo = repo
        self.prog = Program(repo) if floors else _program_without_floors(repo)
        from .cfg import register_package_exceptions

        self.package_exceptions = register_package_exceptions(self.prog)
        self._cfgs: dict[str, CFG] = {}
        self._building: set[str] = set()
        self.obligations: list[Obligation] = []
        self.calls_resolved = 0
        self.calls_unresolved = 0
        self.unresolved_samples: list[str] = []

    # ------------------------------------------------------------------ lookup sugar
    def fn(self, q: str) -> FunctionInfo:
        return self.prog.fn(q)

    def cls(self, q: str):
        return self.prog.cls(q)

    def cfg(self, fi: FunctionInfo | str) -> CFG:
        if isinstance(fi, str):
            fi = self.prog.fn(fi)
        g = self._cfgs.get(fi.qualname)
        if g is None:
            self._building.add(fi.qualname)
            try:
                g = CFG(self.prog, fi, self.call_raises)
            finally:
                self._building.discard(fi.qualname)
            self._cfgs[fi.qualname] = g
        return g

    def callee(self, fi: FunctionInfo, call: ast.Call) -> str | None:
        return self.prog.resolve_callee(fi, call)

    # ------------------------------------------------------------------ E3: call oracle
    def call_raises(self, fi: FunctionInfo, call: ast.Call) -> ExcSet:
        callee = self.prog.resolve_callee(fi, call)
        if callee is None:
            self.calls_unresolved += 1
            if len(self.unresolved_samples) < 12:
                self.unresolved_samples.append(f"{fi.short}: {stmt_text(call.func, 50)}")
            return frozenset({ANY})
        self.calls_resolved += 1
        if callee in NO_RAISE or callee.startswith("builtins.str."):
            return frozenset()
        if callee in RAISES:
            if callee == "contextvars.ContextVar.get" and (call.args or call.keywords):
                return frozenset()
            return RAISES[callee]
        target = self.prog.functions.get(callee)
        if target is None and callee in self.prog.classes:
            ci = self.prog.classes[callee]
            init = None
            for c in self.prog.mro(ci):
                init = c.method("__init__")
                if init is not None:
                    break
            if init is None:
                return frozenset()
            target = init
        if target is None:
            return frozenset({ANY})
        if target.is_async or target.is_generator():
            return frozenset()  # creating the coroutine / generator object does not run the body
        if target.qualname in self._building:
            return frozenset({ANY})
        return self.cfg(target).escapes

    def opaque_helpers(self, fi: FunctionInfo) -> list[str]:
        """Private same-module helpers (not rule anchors) still *called* from fi after normalisation."""
        from .normalize import ANCHOR_HELPERS

        out = []
        for n in fi.own_nodes():
            if isinstance(n, ast.Call):
                q = self.prog.resolve_callee(fi, n)
                t = self.prog.functions.get(q or "")
                if t is None or t.module is not fi.module or t is fi:
                    continue
                name = t.name
                if name.startswith("_") and not (name.startswith("__") and name.endswith("__")) and q.split("#")[0] not in ANCHOR_HELPERS:
                    # nested closures defined in fi itself are visible, not opaque
                    if t.outer is fi:
                        continue
                    out.append(t.short)
        return out

    def summary_suspends(self, fi: FunctionInfo) -> bool:
        return fi.is_async

    # ------------------------------------------------------------------ obligations
    def ob(self, oid: str, kind: str, rule: str, anchors: list[str] | None = None) -> Obligation:
        o = Obligation(id=oid, kind=kind, rule=rule, anchors=list(anchors or []), an=self)
        self.obligations.append(o)
        return o

    def stats(self) -> dict:
        nodes = sum(g.stats()[0] for g in self._cfgs.values())
        edges = sum(g.stats()[1] for g in self._cfgs.values())
        return {
            "modules_parsed": len(self.prog.modules),
            "functions_indexed": len(self.prog.functions),
            "classes_indexed": len(self.prog.classes),
            "cfgs_built": len(self._cfgs),
            "cfg_nodes": nodes,
            "cfg_edges": edges,
            "call_sites_resolved": self.calls_resolved,
            "call_sites_unresolved": self.calls_unresolved,
            "unresolved_samples": self.unresolved_samples,
            "normalisation": getattr(self.prog, "normalisation_log", [])[:40],
            "helpers_analysed_inside_their_callers": sorted(getattr(self.prog, "absorbed", set())),
        }


def _program_without_floors(repo: str) -> Program:
    from . import loader

    saved = loader.MODULE_FLOOR, loader.FUNCTION_FLOOR
    loader.MODULE_FLOOR, loader.FUNCTION_FLOOR = 0, 0
    try:
        return Program(repo)
    finally:
        loader.MODULE_FLOOR, loader.FUNCTION_FLOOR = saved


# ---------------------------------------------------------------------- known findings
@dataclass
class KnownEntry:
    prop: str
    rule: str
    at: str
    construct: str
    what: str
    used: bool = False


def load_known(path: str) -> tuple[list[KnownEntry], list[str]]:
    import re

    known: list[KnownEntry] = []
    fixed: list[str] = []
    if not os.path.exists(path):
        return known, fixed
    pat = re.compile(r'^known:\s+property=(\S+)\s+rule=(\S+)\s+at=(\S+)\s+construct="(.*)"\s+::\s+(.*)$')
    with open(path, encoding="utf-8") as fh:
        for raw in fh:
            line = raw.rstrip("\n")
            if not line.strip() or line.lstrip().startswith("#"):
                continue
            if line.startswith("fixed:"):
                fixed.append(line)
                continue
            m = pat.match(line)
            if not m:
                raise AnalysisError(f"KNOWN_FINDINGS.txt: cannot parse line: {line[:100]}")
            known.append(KnownEntry(*m.groups()))
    return known, fixed


def fmt_path(g: CFG, path: list[Node] | None) -> str:
    return CFG.show_path(path)


def borrow(an: "Analysis", check_fn, wanted: dict[str, str], keep=None) -> None:
    """Re-use obligations of another property as obligations of the current one (a clause that is a
    necessary condition of several properties is checked under each of them).  `wanted` maps the
    foreign obligation id to the local id; `keep(finding)` may filter findings."""
    if getattr(an, "_in_borrow", False):
        return  # obligations a borrowed property borrows itself are not needed (and may be cyclic)
    sub = Analysis.__new__(Analysis)
    sub.__dict__.update(an.__dict__)
    sub.obligations = []
    sub._in_borrow = True  # type: ignore[attr-defined]
    check_fn(sub)
    for o in sub.obligations:
        if o.id not in wanted:
            continue
        new = an.ob(wanted[o.id], o.kind, f"= {o.id}: {o.rule}", o.anchors)
        new.instances = list(o.instances)
        new.notes = list(o.notes)
        for f in o.findings:
            if keep is None or keep(f):
                f.prop, f.rule = new.prop, new.id
                new.findings.append(f)
