"""K10 - facts about CPython 3.12 library constructs the rules depend on (DESIGN.md section 3),
and the table of library calls that are treated as non-raising when exceptional edges are built.

Each fact was confirmed against CPython 3.12.1 while the design was written; the numbers refer
to the API_FACTS list in DESIGN.md.
"""

from __future__ import annotations

API_FACTS: dict[int, str] = {
    1: "asyncio.current_task().cancelled()/.done() are always False for the running task; pending requests are cancelling() > 0",
    2: "weakref.ref(a) == weakref.ref(b) <=> a == b while both alive (hash likewise) - not identity",
    3: "without __reduce__/__reduce_ex__/__copy__/__deepcopy__, copy/deepcopy/pickle rebuild through copyreg.__newobj__ -> cls.__new__, bypassing a metaclass __call__",
    4: "types.MappingProxyType supports neither deepcopy nor pickle",
    5: "Context.run(f) with f a generator/async-generator/coroutine function runs none of the body in that context; an async generator's body runs in the context of whoever drives __anext__",
    6: "iterating a mapping yields keys; a 2-target unpack of that splits 2-element keys and raises otherwise",
    7: "PEP 484: a parameter annotated float admits int; `case float(x)` does not match an int",
    8: "`await fut` can raise CancelledError after fut.set_result(v); v is then only reachable through fut.result()",
    9: "Logger.log(level, fmt, *args) %-formats fmt only when args is non-empty",
    10: "asyncio.gather without return_exceptions=True propagates the first failure and leaves the other awaitables running, their outcomes unobservable",
    11: "loop.create_task(coro) without context= copies the current context itself",
    12: "Python calls __aexit__ only if __aenter__ returned; a failing __aenter__ must undo its own partial work",
}

# Library callees whose call node gets no exceptional edge (resolved dotted names).
NO_RAISE: frozenset[str] = frozenset(
    {
        "builtins.isinstance",
        "builtins.issubclass",
        "builtins.len",
        "builtins.type",
        "builtins.id",
        "builtins.callable",
        "builtins.hasattr",
        "builtins.bool",
        "builtins.vars",
        "builtins.super",
        "time.monotonic",
        "typing.cast",
        "uuid.uuid4",
        "contextvars.ContextVar",
        "contextvars.ContextVar.set",
        "contextvars.ContextVar.reset",
        "contextvars.copy_context",
        "asyncio.current_task",
        "asyncio.iscoroutinefunction",
        "asyncio.get_running_loop",
        "asyncio.get_event_loop",
        "asyncio.shield",
        "asyncio.Lock",
        "asyncio.TaskGroup",
        "asyncio.Future.done",
        "asyncio.Future.cancelled",
        "asyncio.Future.cancel",
        "asyncio.Future.add_done_callback",
        "asyncio.Task.done",
        "asyncio.Task.cancelled",
        "asyncio.Task.cancel",
        "asyncio.Task.cancelling",
        "asyncio.Task.add_done_callback",
        "asyncio.TimerHandle.cancel",
        "asyncio.AbstractEventLoop.create_future",
        "asyncio.AbstractEventLoop.create_task",
        "asyncio.AbstractEventLoop.call_later",
        "asyncio.TaskGroup.create_task",
        "collections.deque",
        "collections.deque.append",
        "collections.deque.appendleft",
        "collections.deque.extend",
        "collections.OrderedDict",
        "collections.OrderedDict.get",
        "collections.OrderedDict.move_to_end",
        "builtins.list.append",
        "builtins.dict.get",
        "logging.getLogger",
        "logging.Logger.log",
        # the convenience forms of Logger.log: errors while rendering / emitting are handled inside logging (Handler.handleError)
        "logging.Logger.debug",
        "logging.Logger.info",
        "logging.Logger.warning",
        "logging.Logger.error",
        "logging.Logger.exception",
        "logging.Logger.critical",
        "logging.Logger.isEnabledFor",
        "logging.Logger.getChild",
        "logging.debug",
        "logging.info",
        "logging.warning",
        "logging.error",
        "logging.exception",
        "logging.critical",
        "functools.partial",
        "builtins.TimeoutError",
        "builtins.StopAsyncIteration",
        "builtins.RuntimeError",
        "builtins.AttributeError",
        "builtins.TypeError",
        "builtins.ValueError",
        "builtins.BaseExceptionGroup",
        "builtins.ExceptionGroup",
        "asyncio.CancelledError",
        "types.MappingProxyType",
    }
)

# Library callees with a precise exception set.
RAISES: dict[str, frozenset[str]] = {
    "contextvars.ContextVar.get": frozenset({"LookupError"}),  # without a default argument
    "collections.deque.popleft": frozenset({"IndexError"}),
    "collections.OrderedDict.popitem": frozenset({"KeyError"}),
    "asyncio.Future.set_result": frozenset({"InvalidStateError"}),
    "asyncio.Future.set_exception": frozenset({"InvalidStateError", "TypeError"}),
}
