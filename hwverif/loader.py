"""E1/E2 - program model: modules, classes, functions, imports, annotation driven types.

Built fresh from ``<repo>/src/haiway/**/*.py`` on every run.  Only ``ast`` is used.
"""

from __future__ import annotations

import ast
import os
from dataclasses import dataclass, field
from typing import Iterator

from . import AnalysisError

PKG = "haiway"
MODULE_FLOOR = 30  # confirmed by hand on the pinned tree
FUNCTION_FLOOR = 200


def set_parents(tree: ast.AST) -> None:
    for node in ast.walk(tree):
        for child in ast.iter_child_nodes(node):
            child._parent = node  # type: ignore[attr-defined]


def parent(node: ast.AST) -> ast.AST | None:
    return getattr(node, "_parent", None)


def ancestors(node: ast.AST) -> Iterator[ast.AST]:
    cur = parent(node)
    while cur is not None:
        yield cur
        cur = parent(cur)


def within(node: ast.AST, container: ast.AST) -> bool:
    if node is container:
        return True
    return any(a is container for a in ancestors(node))


def enclosing_stmt(node: ast.AST) -> ast.stmt | None:
    cur: ast.AST | None = node
    while cur is not None and not isinstance(cur, ast.stmt):
        cur = parent(cur)
    return cur  # type: ignore[return-value]


FuncNode = ast.FunctionDef | ast.AsyncFunctionDef

# return types of the few library functions whose results are used as receivers in the package
EXTERNAL_RETURNS: dict[str, str] = {
    "logging.getLogger": "logging.Logger",
    "asyncio.get_event_loop": "asyncio.AbstractEventLoop",
    "asyncio.get_running_loop": "asyncio.AbstractEventLoop",
    "asyncio.current_task": "asyncio.Task",
    "contextvars.copy_context": "contextvars.Context",
    "asyncio.AbstractEventLoop.create_task": "asyncio.Task",
    "asyncio.AbstractEventLoop.create_future": "asyncio.Future",
    "asyncio.AbstractEventLoop.call_later": "asyncio.TimerHandle",
    "asyncio.TaskGroup.create_task": "asyncio.Task",
    "asyncio.TaskGroup": "asyncio.TaskGroup",
    "asyncio.Lock": "asyncio.Lock",
    "collections.deque": "collections.deque",
    "collections.OrderedDict": "collections.OrderedDict",
    "weakref.ref": "weakref.ref",
}


@dataclass
class FunctionInfo:
    qualname: str  # haiway.context.access.ScopeContext.__aexit__
    node: FuncNode
    module: "ModuleInfo"
    cls: "ClassInfo | None"  # class whose method this is (closures inherit it for `self`)
    outer: "FunctionInfo | None"  # enclosing function for closures
    is_method: bool = False
    nested: list["FunctionInfo"] = field(default_factory=list)

    @property
    def name(self) -> str:
        return self.node.name

    @property
    def is_async(self) -> bool:
        return isinstance(self.node, ast.AsyncFunctionDef)

    @property
    def short(self) -> str:
        return self.qualname[len(PKG) + 1 :] if self.qualname.startswith(PKG + ".") else self.qualname

    def own_nodes(self) -> Iterator[ast.AST]:
        """All AST nodes of the body that belong to this function (not to nested defs/lambdas)."""
        stack: list[ast.AST] = list(reversed(self.node.body))
        while stack:
            n = stack.pop()
            yield n
            if isinstance(n, (ast.FunctionDef, ast.AsyncFunctionDef, ast.ClassDef, ast.Lambda)):
                continue
            stack.extend(reversed(list(ast.iter_child_nodes(n))))

    def all_nodes(self) -> Iterator[ast.AST]:
        for stmt in self.node.body:
            yield from ast.walk(stmt)

    def is_generator(self) -> bool:
        return any(isinstance(n, (ast.Yield, ast.YieldFrom)) for n in self.own_nodes())

    def params(self) -> list[ast.arg]:
        a = self.node.args
        out = [*a.posonlyargs, *a.args]
        if a.vararg:
            out.append(a.vararg)
        out.extend(a.kwonlyargs)
        if a.kwarg:
            out.append(a.kwarg)
        return out

    def param_names(self) -> list[str]:
        return [p.arg for p in self.params()]

    def decorator_names(self) -> list[str]:
        out = []
        for d in self.node.decorator_list:
            t = d.func if isinstance(d, ast.Call) else d
            out.append(dotted(t) or "?")
        return out


@dataclass
class ClassInfo:
    qualname: str
    node: ast.ClassDef
    module: "ModuleInfo"
    methods: dict[str, list[FunctionInfo]] = field(default_factory=dict)
    attr_ann: dict[str, ast.expr] = field(default_factory=dict)  # attribute -> annotation expr
    attr_val: dict[str, list[ast.expr]] = field(default_factory=dict)  # attribute -> assigned exprs
    class_assign: dict[str, ast.expr] = field(default_factory=dict)  # class level `x = expr`

    @property
    def name(self) -> str:
        return self.node.name

    def method(self, name: str) -> FunctionInfo | None:
        ms = self.methods.get(name)
        return ms[-1] if ms else None


@dataclass
class ModuleInfo:
    name: str  # haiway.context.access
    path: str
    relpath: str
    tree: ast.Module
    source: str
    imports: dict[str, str] = field(default_factory=dict)  # local name -> dotted target
    classes: dict[str, ClassInfo] = field(default_factory=dict)
    functions: dict[str, list[FunctionInfo]] = field(default_factory=dict)  # top-level
    assigns: dict[str, ast.expr] = field(default_factory=dict)  # module level NAME = expr
    is_package: bool = False
    extra_imports: dict[str, str] = field(default_factory=dict)  # names the normaliser introduced (kept across re-indexing)


def dotted(node: ast.AST | None) -> str | None:
    """`a.b.c` for Name/Attribute chains, else None."""
    parts: list[str] = []
    cur = node
    while isinstance(cur, ast.Attribute):
        parts.append(cur.attr)
        cur = cur.value
    if isinstance(cur, ast.Name):
        parts.append(cur.id)
        return ".".join(reversed(parts))
    return None


@dataclass(frozen=True)
class TypeRef:
    name: str  # dotted class name (internal qualname or external dotted)
    args: tuple["TypeRef | None", ...] = ()
    is_class: bool = False  # the class object itself rather than an instance

    def __str__(self) -> str:
        s = self.name
        if self.args:
            s += "[" + ", ".join(str(a) for a in self.args) + "]"
        return ("type[" + s + "]") if self.is_class else s


class Program:
    def __init__(self, repo: str, normalise: bool = True) -> None:
        self.normalise = normalise
        self.repo = os.path.abspath(repo)
        self.src = os.path.join(self.repo, "src")
        self.modules: dict[str, ModuleInfo] = {}
        self.functions: dict[str, FunctionInfo] = {}
        self.classes: dict[str, ClassInfo] = {}
        self.func_of_node: dict[int, FunctionInfo] = {}
        self._load()

    # ------------------------------------------------------------------ loading
    def _load(self) -> None:
        root = os.path.join(self.src, PKG)
        if not os.path.isdir(root):
            raise AnalysisError(f"package directory {root} not found")
        for dirpath, dirnames, filenames in os.walk(root):
            dirnames[:] = sorted(d for d in dirnames if d != "__pycache__")
            for fn in sorted(filenames):
                if not fn.endswith(".py"):
                    continue
                path = os.path.join(dirpath, fn)
                rel = os.path.relpath(path, self.repo)
                modrel = os.path.relpath(path, self.src)[:-3].replace(os.sep, ".")
                is_pkg = modrel.endswith(".__init__")
                if is_pkg:
                    modrel = modrel[: -len(".__init__")]
                try:
                    with open(path, encoding="utf-8") as fh:
                        source = fh.read()
                    tree = ast.parse(source, filename=path)
                except (SyntaxError, OSError, UnicodeDecodeError) as exc:
                    raise AnalysisError(f"cannot parse {rel}: {exc}") from exc
                set_parents(tree)
                self.modules[modrel] = ModuleInfo(modrel, path, rel, tree, source, is_package=is_pkg)
        if len(self.modules) < MODULE_FLOOR:
            raise AnalysisError(
                f"only {len(self.modules)} modules parsed under src/{PKG}, confirmed floor is {MODULE_FLOOR}"
            )
        self._reindex()
        if len(self.functions) < FUNCTION_FLOOR:
            raise AnalysisError(
                f"only {len(self.functions)} functions indexed, confirmed floor is {FUNCTION_FLOOR}"
            )
        self.normalisation_log: list[str] = []
        self.absorbed: set[str] = set()
        if self.normalise:
            self._normalise()

    def _reindex(self) -> None:
        self.functions = {}
        self.classes = {}
        self.func_of_node = {}
        self.__dict__.pop("_callee_memo", None)
        for mod in self.modules.values():
            set_parents(mod.tree)
            mod.imports, mod.classes, mod.functions, mod.assigns = {}, {}, {}, {}
            self._index_module(mod)
            for k, v in mod.extra_imports.items():
                mod.imports.setdefault(k, v)

    def _normalise(self) -> None:
        """Role-based attribute names, then inlining of non-anchor private helpers (hwverif.normalize)."""
        from .normalize import apply_renames, flatten_program, role_renames, split_conditional_returns, unfold_missing_predicates

        from .normalize import materialise_inherited_methods

        inh = materialise_inherited_methods(self)
        if inh:
            self.normalisation_log += inh
            self._reindex()
        from .normalize import split_record_attributes

        recs = split_record_attributes(self)
        if recs:
            self.normalisation_log += recs
            self._reindex()
        from .normalize import trystar_as_try

        stars = trystar_as_try(self)
        if stars:
            self.normalisation_log += stars
            self._reindex()
        from .normalize import inline_module_constants

        lits = inline_module_constants(self)
        if lits:
            self.normalisation_log += lits
            self._reindex()
        from .normalize import expand_registry_displays

        regs = expand_registry_displays(self)
        if regs:
            self.normalisation_log += regs
            self._reindex()
        from .normalize import nest_returned_module_functions

        nested_ = nest_returned_module_functions(self)
        if nested_:
            self.normalisation_log += nested_
            self._reindex()
        from .normalize import distinguish_cancelled_errors

        dist = distinguish_cancelled_errors(self)
        if dist:
            self.normalisation_log += dist
            self._reindex()
        from .normalize import private_name_role_renames

        pren = private_name_role_renames(self)
        if pren:
            self.normalisation_log += pren
            self._reindex()
        from .normalize import drop_reraise_only_handlers

        rer = drop_reraise_only_handlers(self)
        if rer:
            self.normalisation_log += rer
            self._reindex()
        from .normalize import small_equivalences

        smalls = small_equivalences(self)
        if smalls:
            self.normalisation_log += smalls
            self._reindex()
        from .normalize import explicit_context_protocol_as_with

        ewith = explicit_context_protocol_as_with(self)
        if ewith:
            self.normalisation_log += ewith
            self._reindex()
        from .normalize import cursor_loops_as_recursion

        cur = cursor_loops_as_recursion(self)
        if cur:
            self.normalisation_log += cur
            self._reindex()
        from .normalize import strip_identity_conversions, strip_typed_conversions

        ident = strip_identity_conversions(self)
        if ident:
            self.normalisation_log += ident
            self._reindex()
        ident2 = strip_typed_conversions(self)
        if ident2:
            self.normalisation_log += ident2
            self._reindex()
        from .normalize import wrapper_ctor_param_renames

        cren = wrapper_ctor_param_renames(self)
        if cren:
            self.normalisation_log += cren
            self._reindex()
        from .normalize import specialise_module_closures

        spec = specialise_module_closures(self)
        if spec:
            self.normalisation_log += spec
            self._reindex()
        unfolded = unfold_missing_predicates(self)
        if unfolded:
            self.normalisation_log += unfolded
            self._reindex()
        from .normalize import sink_result_returns

        sunk = sink_result_returns(self)
        if sunk:
            self.normalisation_log += sunk
            self._reindex()
        split = split_conditional_returns(self)
        if split:
            self.normalisation_log += split
            self._reindex()
        ren = role_renames(self)
        if ren:
            self.normalisation_log += ["attribute " + x for x in apply_renames(self, ren)]
            self._reindex()
        from .normalize import method_role_renames

        mren = method_role_renames(self)
        if mren:
            self.normalisation_log += ["method " + x for x in apply_renames(self, mren)]
            self._reindex()
        for _round in range(2):
            new_bodies, inl = flatten_program(self)
            if not new_bodies:
                break
            for q, body in new_bodies.items():
                self.functions[q].node.body = body
            self.normalisation_log += inl.log
            absorbed = {q for q, n in inl.inlined_sites.items() if n > 0 and inl.opaque_sites.get(q, 0) == 0}
            self._reindex()
            self.absorbed |= {q for q in absorbed if q in self.functions}
            break
        again_ = small_equivalences(self)  # spellings that only appear once helpers were read in place (`not _is_missing(x)`)
        if again_:
            self.normalisation_log += again_
            self._reindex()

    def scan_functions(self):
        """Functions for whole-package scans: helpers whose every call site was inlined are analysed
        as part of their callers and skipped here."""
        return [f for q, f in self.functions.items() if q not in self.absorbed]

    def _index_module(self, mod: ModuleInfo) -> None:
        for node in ast.walk(mod.tree):
            if isinstance(node, ast.ImportFrom):
                base = node.module or ""
                if node.level:
                    pkg_parts = mod.name.split(".")
                    if not mod.is_package:
                        pkg_parts = pkg_parts[:-1]
                    pkg_parts = pkg_parts[: len(pkg_parts) - (node.level - 1)]
                    base = ".".join([*pkg_parts, base] if base else pkg_parts)
                for alias in node.names:
                    mod.imports.setdefault(alias.asname or alias.name, f"{base}.{alias.name}")
            elif isinstance(node, ast.Import):
                for alias in node.names:
                    if alias.asname:
                        mod.imports.setdefault(alias.asname, alias.name)
                    else:
                        top = alias.name.split(".")[0]
                        mod.imports.setdefault(top, top)
        self._index_body(mod, mod.tree.body, prefix=mod.name, cls=None, outer=None)
        for stmt in mod.tree.body:
            if isinstance(stmt, ast.Assign) and len(stmt.targets) == 1 and isinstance(stmt.targets[0], ast.Name):
                mod.assigns[stmt.targets[0].id] = stmt.value
            elif isinstance(stmt, ast.AnnAssign) and isinstance(stmt.target, ast.Name) and stmt.value is not None:
                mod.assigns[stmt.target.id] = stmt.value

    def _register_function(self, fi: FunctionInfo) -> None:
        if any(d.rsplit(".", 1)[-1] == "overload" for d in fi.decorator_names()):
            fi.qualname = fi.qualname + "@overload"  # typing stubs; the implementation keeps the plain name
        q = fi.qualname
        n = 2
        while q in self.functions:
            q = f"{fi.qualname}#{n}"
            n += 1
        fi.qualname = q
        self.functions[q] = fi
        self.func_of_node[id(fi.node)] = fi

    def _index_body(
        self,
        mod: ModuleInfo,
        body: list[ast.stmt],
        prefix: str,
        cls: ClassInfo | None,
        outer: FunctionInfo | None,
        in_class_body: bool = False,
    ) -> None:
        for stmt in self._flatten(body):
            if isinstance(stmt, (ast.FunctionDef, ast.AsyncFunctionDef)):
                fi = FunctionInfo(
                    qualname=f"{prefix}.{stmt.name}",
                    node=stmt,
                    module=mod,
                    cls=cls,
                    outer=outer,
                    is_method=in_class_body,
                )
                self._register_function(fi)
                if in_class_body and cls is not None:
                    cls.methods.setdefault(stmt.name, []).append(fi)
                elif outer is None:
                    mod.functions.setdefault(stmt.name, []).append(fi)
                if outer is not None:
                    outer.nested.append(fi)
                self._index_body(mod, stmt.body, fi.qualname, cls, fi)
                if in_class_body and cls is not None:
                    self._collect_self_attrs(cls, fi)
            elif isinstance(stmt, ast.ClassDef):
                ci = ClassInfo(qualname=f"{prefix}.{stmt.name}", node=stmt, module=mod)
                self.classes[ci.qualname] = ci
                if outer is None and not in_class_body:
                    mod.classes[stmt.name] = ci
                for s in self._flatten(stmt.body):
                    if isinstance(s, ast.AnnAssign) and isinstance(s.target, ast.Name):
                        ci.attr_ann.setdefault(s.target.id, s.annotation)
                        if s.value is not None:
                            ci.class_assign[s.target.id] = s.value
                    elif isinstance(s, ast.Assign):
                        for t in s.targets:
                            if isinstance(t, ast.Name):
                                ci.class_assign[t.id] = s.value
                self._index_body(mod, stmt.body, ci.qualname, ci, outer, in_class_body=True)

    @staticmethod
    def _flatten(body: list[ast.stmt]) -> Iterator[ast.stmt]:
        """Statements of a body, looking through if/try/with blocks (conditional definitions)."""
        for stmt in body:
            yield stmt
            if isinstance(stmt, ast.If):
                yield from Program._flatten(stmt.body)
                yield from Program._flatten(stmt.orelse)
            elif isinstance(stmt, ast.Try):
                yield from Program._flatten(stmt.body)
                for h in stmt.handlers:
                    yield from Program._flatten(h.body)
                yield from Program._flatten(stmt.orelse)
                yield from Program._flatten(stmt.finalbody)
            elif isinstance(stmt, (ast.With, ast.AsyncWith, ast.For, ast.AsyncFor, ast.While)):
                yield from Program._flatten(stmt.body)
                yield from Program._flatten(getattr(stmt, "orelse", []))
            elif isinstance(stmt, ast.Match):
                for c in stmt.cases:
                    yield from Program._flatten(c.body)

    def _collect_self_attrs(self, cls: ClassInfo, fi: FunctionInfo) -> None:
        positional = fi.node.args.posonlyargs + fi.node.args.args
        if not positional:
            return
        selfname = positional[0].arg
        for n in fi.own_nodes():
            if isinstance(n, ast.AnnAssign) and isinstance(n.target, ast.Attribute):
                t = n.target
                if isinstance(t.value, ast.Name) and t.value.id == selfname:
                    cls.attr_ann.setdefault(t.attr, n.annotation)
                    if n.value is not None:
                        cls.attr_val.setdefault(t.attr, []).append(n.value)
            elif isinstance(n, ast.Assign):
                for t in n.targets:
                    if isinstance(t, ast.Attribute) and isinstance(t.value, ast.Name) and t.value.id == selfname:
                        cls.attr_val.setdefault(t.attr, []).append(n.value)

    # ------------------------------------------------------------------ lookup
    def fn(self, qualname: str) -> FunctionInfo:
        q = qualname if qualname.startswith(PKG + ".") else f"{PKG}.{qualname}"
        fi = self.functions.get(q)
        if fi is None:
            raise AnalysisError(f"anchor function {q} not found in the current tree")
        return fi

    def fn_opt(self, qualname: str) -> FunctionInfo | None:
        q = qualname if qualname.startswith(PKG + ".") else f"{PKG}.{qualname}"
        return self.functions.get(q)

    def cls(self, qualname: str) -> ClassInfo:
        q = qualname if qualname.startswith(PKG + ".") else f"{PKG}.{qualname}"
        ci = self.classes.get(q)
        if ci is None:
            raise AnalysisError(f"anchor class {q} not found in the current tree")
        return ci

    def module(self, name: str) -> ModuleInfo:
        q = name if name.startswith(PKG) else f"{PKG}.{name}"
        m = self.modules.get(q)
        if m is None:
            raise AnalysisError(f"anchor module {q} not found in the current tree")
        return m

    def functions_in(self, module_prefix: str) -> list[FunctionInfo]:
        p = module_prefix if module_prefix.startswith(PKG) else f"{PKG}.{module_prefix}"
        return [f for f in self.functions.values() if f.module.name == p or f.module.name.startswith(p + ".")]

    def function_of(self, node: ast.AST) -> FunctionInfo | None:
        cur: ast.AST | None = node
        while cur is not None:
            fi = self.func_of_node.get(id(cur))
            if fi is not None and cur is not node:
                return fi
            if fi is not None and cur is node and isinstance(node, (ast.FunctionDef, ast.AsyncFunctionDef)):
                # the def statement itself belongs to the enclosing function
                pass
            cur = parent(cur)
        return None

    # ------------------------------------------------------------------ symbols
    def resolve_global(self, mod: ModuleInfo, name: str, _depth: int = 0) -> str | None:
        """Dotted target of a module level name: internal qualname or external dotted name."""
        if _depth > 8:
            return None
        if name in mod.classes:
            return mod.classes[name].qualname
        if name in mod.functions:
            return mod.functions[name][-1].qualname
        if name in mod.assigns and name not in mod.imports:
            return f"{mod.name}.{name}"
        target = mod.imports.get(name)
        if target is None:
            return None
        return self._follow(target, _depth + 1)

    def _follow(self, target: str, depth: int) -> str:
        if target in self.modules:
            return target
        base, _, leaf = target.rpartition(".")
        m = self.modules.get(base)
        if m is None:
            return target  # external
        r = self.resolve_global(m, leaf, depth)
        return r or target

    def resolve_dotted(self, fi_or_mod: "FunctionInfo | ModuleInfo", expr: ast.AST) -> str | None:
        """Resolve a Name/Attribute chain whose head is a *global* (import, class, function)."""
        mod = fi_or_mod.module if isinstance(fi_or_mod, FunctionInfo) else fi_or_mod
        d = dotted(expr)
        if d is None:
            return None
        head, *rest = d.split(".")
        if isinstance(fi_or_mod, FunctionInfo) and self.is_local(fi_or_mod, head):
            return None
        base = self.resolve_global(mod, head)
        if base is None:
            import builtins

            if hasattr(builtins, head):
                base = f"builtins.{head}"
            else:
                return None
        cur = base
        for part in rest:
            if cur in self.modules:
                m = self.modules[cur]
                nxt = self.resolve_global(m, part)
                cur = nxt or f"{cur}.{part}"
            elif cur in self.classes:
                ci = self.classes[cur]
                meth = ci.method(part)
                cur = meth.qualname if meth else f"{cur}.{part}"
            else:
                cur = f"{cur}.{part}"
        return cur

    def is_local(self, fi: FunctionInfo, name: str) -> bool:
        cur: FunctionInfo | None = fi
        while cur is not None:
            if name in self.local_names(cur):
                return True
            cur = cur.outer
        return False

    def local_names(self, fi: FunctionInfo) -> set[str]:
        cache = getattr(fi, "_locals", None)
        if cache is not None:
            return cache
        names: set[str] = set(fi.param_names())
        for n in fi.own_nodes():
            if isinstance(n, ast.Name) and isinstance(n.ctx, (ast.Store, ast.Del)):
                names.add(n.id)
            elif isinstance(n, (ast.FunctionDef, ast.AsyncFunctionDef, ast.ClassDef)):
                names.add(n.name)
            elif isinstance(n, ast.ExceptHandler) and n.name:
                names.add(n.name)
            elif isinstance(n, (ast.MatchAs, ast.MatchStar)) and n.name:
                names.add(n.name)
            elif isinstance(n, ast.MatchMapping) and n.rest:
                names.add(n.rest)
        fi._locals = names  # type: ignore[attr-defined]
        return names

    # ------------------------------------------------------------------ types (annotation driven)
    def ann_type(self, mod: ModuleInfo, ann: ast.expr | None, self_cls: ClassInfo | None = None) -> TypeRef | None:
        if ann is None:
            return None
        if isinstance(ann, ast.Constant) and isinstance(ann.value, str):
            try:
                ann = ast.parse(ann.value, mode="eval").body
            except SyntaxError:
                return None
        if isinstance(ann, ast.BinOp) and isinstance(ann.op, ast.BitOr):
            sides = [s for s in (ann.left, ann.right) if not (isinstance(s, ast.Constant) and s.value is None)]
            if len(sides) == 1:
                return self.ann_type(mod, sides[0], self_cls)
            return None
        head_ = ann.value if isinstance(ann, ast.Subscript) else ann
        if isinstance(head_, ast.Name):
            # `type _Entries[T] = OrderedDict[Hashable, T]`: an alias of the module stands for what it is defined as
            alias_ = next((st for st in mod.tree.body if isinstance(st, ast.TypeAlias) and st.name.id == head_.id), None)
            if alias_ is not None and alias_.value is not ann:
                return self.ann_type(mod, alias_.value, self_cls)
        if isinstance(ann, ast.Subscript):
            base = self.ann_type(mod, ann.value, self_cls)
            if base is None:
                return None
            if base.name in ("builtins.type", "typing.Type"):
                inner = self.ann_type(mod, ann.slice, self_cls)
                return TypeRef(inner.name, inner.args, True) if inner else None
            if base.name in ("typing.ClassVar", "typing.Final", "typing.Annotated", "typing.Required", "typing.NotRequired", "typing.ReadOnly"):
                # qualifiers say where / how the name is bound, not what the value is
                inner_ann = ann.slice.elts[0] if isinstance(ann.slice, ast.Tuple) and ann.slice.elts else ann.slice
                return self.ann_type(mod, inner_ann, self_cls)
            elts = ann.slice.elts if isinstance(ann.slice, ast.Tuple) else [ann.slice]
            return TypeRef(base.name, tuple(self.ann_type(mod, e, self_cls) for e in elts))
        d = dotted(ann)
        if d is None:
            return None
        if d in ("Self", "typing.Self") and self_cls is not None:
            return TypeRef(self_cls.qualname)
        r = self.resolve_dotted(mod, ann)
        if r in ("typing.Self",) and self_cls is not None:
            return TypeRef(self_cls.qualname)
        return TypeRef(r) if r else None

    def _local_tables(self, fi: FunctionInfo) -> tuple[dict, dict]:
        """(name -> annotation expr, name -> [value exprs]) of one function, computed once."""
        cached = getattr(fi, "_ltables", None)
        if cached is not None:
            return cached
        anns: dict[str, ast.expr] = {}
        vals: dict[str, list[ast.expr]] = {}
        for p in fi.params():
            if p.annotation is not None:
                anns.setdefault(p.arg, p.annotation)
        for n in fi.own_nodes():
            if isinstance(n, ast.AnnAssign) and isinstance(n.target, ast.Name):
                anns.setdefault(n.target.id, n.annotation)
                if n.value is not None:
                    vals.setdefault(n.target.id, []).append(n.value)
            elif isinstance(n, ast.Assign):
                for t in n.targets:
                    if isinstance(t, ast.Name):
                        vals.setdefault(t.id, []).append(n.value)
            elif isinstance(n, ast.NamedExpr):
                vals.setdefault(n.target.id, []).append(n.value)
            elif isinstance(n, ast.MatchAs) and n.name and isinstance(n.pattern, ast.MatchClass):
                vals.setdefault(n.name, []).append(ast.Call(func=n.pattern.cls, args=[], keywords=[]))
        fi._ltables = (anns, vals)  # type: ignore[attr-defined]
        return anns, vals

    def _local_annotation(self, fi: FunctionInfo, name: str) -> tuple[FunctionInfo, ast.expr] | None:
        cur: FunctionInfo | None = fi
        while cur is not None:
            anns, _ = self._local_tables(cur)
            if name in anns:
                return cur, anns[name]
            if name in self.local_names(cur):
                return None
            cur = cur.outer
        return None

    def _local_value(self, fi: FunctionInfo, name: str) -> tuple[FunctionInfo, list[ast.expr]] | None:
        cur: FunctionInfo | None = fi
        while cur is not None:
            _, vals = self._local_tables(cur)
            if vals.get(name):
                return cur, vals[name]
            if name in self.local_names(cur):
                return None
            cur = cur.outer
        return None

    def self_class(self, fi: FunctionInfo) -> ClassInfo | None:
        return fi.cls

    def self_name(self, fi: FunctionInfo) -> tuple[str, bool] | None:
        """(name, is_cls) of the receiver parameter visible in fi (own or via closure)."""
        cur: FunctionInfo | None = fi
        while cur is not None:
            if cur.is_method and cur.node.args.posonlyargs + cur.node.args.args:
                decos = cur.decorator_names()
                if "staticmethod" in decos:
                    return None
                first = (cur.node.args.posonlyargs + cur.node.args.args)[0].arg
                return first, ("classmethod" in decos or cur.name in ("__class_getitem__", "__init_subclass__"))
            cur = cur.outer
        return None

    def expr_type(self, fi: FunctionInfo, expr: ast.AST, _depth: int = 0) -> TypeRef | None:
        if _depth > 10:
            return None
        mod = fi.module
        if isinstance(expr, ast.Name):
            sn = self.self_name(fi)
            if sn and expr.id == sn[0] and fi.cls is not None:
                return TypeRef(fi.cls.qualname, (), sn[1])
            la = self._local_annotation(fi, expr.id)
            if la is not None:
                return self.ann_type(la[0].module, la[1], fi.cls)
            lv = self._local_value(fi, expr.id)
            if lv is not None:
                types = {self.expr_type(lv[0], v, _depth + 1) for v in lv[1]}
                types.discard(None)
                return next(iter(types)) if len(types) == 1 else None
            if self.is_local(fi, expr.id):
                return None
            r = self.resolve_global(mod, expr.id)
            if r in self.classes:
                return TypeRef(r, (), True)
            gv = mod.assigns.get(expr.id)
            if isinstance(gv, ast.Call):
                # module-level object: `_log = getLogger(__name__)`, `_cache = WeakValueDictionary()`
                callee = self.resolve_dotted(mod, gv.func.value if isinstance(gv.func, ast.Subscript) else gv.func)
                if callee in EXTERNAL_RETURNS:
                    return TypeRef(EXTERNAL_RETURNS[callee])
                if callee in self.classes:
                    return TypeRef(callee)
            return None
        if isinstance(expr, ast.Attribute):
            base = self.expr_type(fi, expr.value, _depth + 1)
            if base is None:
                r = self.resolve_dotted(fi, expr)
                if r in self.classes:
                    return TypeRef(r, (), True)
                return None
            if expr.attr == "__class__" and not base.is_class:
                return TypeRef(base.name, base.args, True)
            ci = self.classes.get(base.name)
            if ci is None:
                return None
            for c in self.mro(ci):
                if expr.attr in c.attr_ann:
                    return self.ann_type(c.module, c.attr_ann[expr.attr], c)
                if expr.attr in c.class_assign:
                    f0 = c.method("__init__") or fi
                    return self._value_type_in_class(c, c.class_assign[expr.attr])
                m = c.method(expr.attr)
                if m is not None and "property" in m.decorator_names():
                    return self.ann_type(c.module, m.node.returns, c)
            return None
        if isinstance(expr, ast.Call):
            callee = self.resolve_callee(fi, expr, _depth + 1)
            if callee is None:
                return None
            if callee in self.classes:
                return TypeRef(callee)
            if callee in ("typing.cast",) and expr.args:
                return self.ann_type(mod, expr.args[0], fi.cls)
            if callee == "contextvars.ContextVar.get" and isinstance(expr.func, ast.Attribute):
                cv = self.expr_type(fi, expr.func.value, _depth + 1)
                if cv and cv.args:
                    return cv.args[0]
                return None
            if callee in ("asyncio.Future.result", "asyncio.Task.result") and isinstance(expr.func, ast.Attribute):
                cv = self.expr_type(fi, expr.func.value, _depth + 1)
                if cv and cv.args and cv.args[0] is not None:
                    return cv.args[0]  # Future[float].result() -> float
                return None
            if callee.startswith("builtins.str.") and callee.rsplit(".", 1)[1] in ("replace", "strip", "lstrip", "rstrip", "lower", "upper", "format", "join", "removeprefix", "removesuffix", "ljust", "rjust", "center", "title"):
                return TypeRef("builtins.str")
            if callee in EXTERNAL_RETURNS:
                return TypeRef(EXTERNAL_RETURNS[callee])
            f = self.functions.get(callee)
            if f is not None:
                recv_cls = f.cls
                if isinstance(expr.func, ast.Attribute):
                    rt = self.expr_type(fi, expr.func.value, _depth + 1)
                    if rt and rt.name in self.classes:
                        recv_cls = self.classes[rt.name]
                t = self.ann_type(f.module, f.node.returns, recv_cls)
                return t
            return None
        if isinstance(expr, ast.Await):
            return self.expr_type(fi, expr.value, _depth + 1)
        if isinstance(expr, ast.BoolOp):
            ts = {self.expr_type(fi, v, _depth + 1) for v in expr.values}
            ts.discard(None)
            return next(iter(ts)) if len(ts) == 1 else None
        if isinstance(expr, ast.NamedExpr):
            return self.expr_type(fi, expr.value, _depth + 1)
        if isinstance(expr, ast.IfExp):
            ta, tb = self.expr_type(fi, expr.body, _depth + 1), self.expr_type(fi, expr.orelse, _depth + 1)
            return ta if ta is not None and tb is not None and ta.name == tb.name else None
        if isinstance(expr, ast.JoinedStr) or (isinstance(expr, ast.Constant) and isinstance(expr.value, str)):
            return TypeRef("builtins.str")
        if isinstance(expr, ast.Constant) and type(expr.value) in (int, float, bool):
            return TypeRef("builtins." + type(expr.value).__name__)
        if isinstance(expr, ast.Subscript):
            # ContextVar[ScopeState]("name") style generic instantiation handled in Call via func
            return None
        return None

    def _value_type_in_class(self, c: ClassInfo, value: ast.expr) -> TypeRef | None:
        # class level `_context = ContextVar[ScopeState]("StateContext")`
        if isinstance(value, ast.Call):
            f = value.func
            if isinstance(f, ast.Subscript):
                base = self.resolve_dotted(c.module, f.value)
                if base:
                    elts = f.slice.elts if isinstance(f.slice, ast.Tuple) else [f.slice]
                    return TypeRef(base, tuple(self.ann_type(c.module, e, c) for e in elts))
            else:
                base = self.resolve_dotted(c.module, f)
                if base:
                    return TypeRef(base)
        return None

    def mro(self, ci: ClassInfo) -> list[ClassInfo]:
        out = [ci]
        for b in ci.node.bases:
            t = b.value if isinstance(b, ast.Subscript) else b
            r = self.resolve_dotted(ci.module, t)
            if r in self.classes and self.classes[r] is not ci:
                for c in self.mro(self.classes[r]):
                    if c not in out:
                        out.append(c)
        return out

    def resolve_callee(self, fi: FunctionInfo, call: ast.Call, _depth: int = 0) -> str | None:
        """Dotted name of what is called: internal function/class qualname, or external dotted
        name (``asyncio.shield``, ``contextvars.ContextVar.set``), else None."""
        key = (fi.qualname, id(call))
        memo = self.__dict__.setdefault("_callee_memo", {})
        if key in memo and getattr(call, "_parent", None) is not None:
            return memo[key]
        r = self._resolve_callee(fi, call, _depth)
        if _depth == 0 and getattr(call, "_parent", None) is not None:
            memo[key] = r
        return r

    def _resolve_callee(self, fi: FunctionInfo, call: ast.Call, _depth: int = 0) -> str | None:
        f = call.func
        if isinstance(f, ast.Subscript):  # ContextVar[T](...)
            f = f.value
        if isinstance(f, (ast.Name, ast.Attribute)):
            ct = self.expr_type(fi, f, _depth + 1)
            if ct is not None and ct.is_class and ct.name in self.classes:
                return ct.name
        if isinstance(f, ast.Name):
            # closure / local function?
            cur: FunctionInfo | None = fi
            while cur is not None:
                for nf in cur.nested:
                    if nf.name == f.id:
                        return nf.qualname
                if f.id in self.local_names(cur):
                    lv = self._local_value(cur, f.id)
                    return None
                cur = cur.outer
            r = self.resolve_global(fi.module, f.id)
            if r is None:
                import builtins

                if hasattr(builtins, f.id):
                    return f"builtins.{f.id}"
            return r
        if isinstance(f, ast.Attribute):
            # super().__call__()
            if (
                isinstance(f.value, ast.Call)
                and isinstance(f.value.func, ast.Name)
                and f.value.func.id == "super"
            ):
                return f"super.{f.attr}"
            bt = self.expr_type(fi, f.value, _depth + 1)
            if bt is not None:
                ci = self.classes.get(bt.name)
                if ci is not None:
                    for c in self.mro(ci):
                        m = c.method(f.attr)
                        if m is not None:
                            return m.qualname
                    return f"{bt.name}.{f.attr}"
                return f"{bt.name}.{f.attr}"
            r = self.resolve_dotted(fi, f)
            return r
        return None

    # ------------------------------------------------------------------ misc
    def loc(self, fi: FunctionInfo | None, node: ast.AST | None, mod: ModuleInfo | None = None) -> str:
        m = fi.module if fi is not None else mod
        line = getattr(node, "lineno", 0) if node is not None else 0
        return f"{m.relpath if m else '?'}:{line}"


def stmt_text(node: ast.AST | None, limit: int = 160) -> str:
    """Normalised single-line text of a construct: the *key* of a finding (never matched as a rule)."""
    if node is None:
        return "<none>"
    if isinstance(node, (ast.If, ast.While)):
        s = ("if " if isinstance(node, ast.If) else "while ") + ast.unparse(node.test)
    elif isinstance(node, (ast.For, ast.AsyncFor)):
        s = f"for {ast.unparse(node.target)} in {ast.unparse(node.iter)}"
    elif isinstance(node, (ast.With, ast.AsyncWith)):
        s = "with " + ", ".join(ast.unparse(i) for i in node.items)
    elif isinstance(node, ast.Try):
        s = "try"
    elif isinstance(node, ast.ExceptHandler):
        s = "except " + (ast.unparse(node.type) if node.type else "") + (f" as {node.name}" if node.name else "")
    elif isinstance(node, ast.Match):
        s = "match " + ast.unparse(node.subject)
    elif isinstance(node, ast.match_case):
        s = "case " + ast.unparse(node.pattern) + (f" if {ast.unparse(node.guard)}" if node.guard else "")
    elif isinstance(node, (ast.FunctionDef, ast.AsyncFunctionDef, ast.ClassDef)):
        s = f"def {node.name}"
    else:
        try:
            s = ast.unparse(node)
        except Exception:  # pragma: no cover
            s = type(node).__name__
    s = " ".join(s.split())
    return s if len(s) <= limit else s[: limit - 3] + "..."
