"""Command line: ``python -m hwverif.cli check C07 [--tier quick|thorough] [--repo /repo]``.

exit 0 - every obligation discharged (findings listed in KNOWN_FINDINGS.txt print KNOWN-FINDING)
exit 1 - VIOLATION property=<id> replay=<path>  (+ one line per finding)
exit 2 - ANALYSIS-ERROR (unparsable file, vanished anchor, unrecognised idiom, traceback)
"""

from __future__ import annotations

import argparse
import importlib
import json
import os
import sys
import time
import traceback

from . import AnalysisError
from .engine import Analysis, Finding, load_known

VERIF = os.path.dirname(os.path.dirname(os.path.abspath(__file__)))
ALL_PROPS = [f"C{i:02d}" for i in range(1, 21)]


def _prop_module(pid: str):
    return importlib.import_module(f"hwverif.props.{pid.lower()}")


def run_property(pid: str, repo: str, tier: str, evidence_dir: str | None = None, known_path: str | None = None, quiet: bool = False) -> int:
    t0 = time.time()
    evidence_dir = evidence_dir or os.path.join(VERIF, "evidence")
    known_path = known_path or os.path.join(VERIF, "KNOWN_FINDINGS.txt")
    os.makedirs(evidence_dir, exist_ok=True)
    ev_path = os.path.join(evidence_dir, f"{pid}.json")
    replay_path = os.path.join(evidence_dir, f"{pid}.violations.json")
    seed = int(os.environ.get("VERIF_SEED", "0") or 0)
    out = sys.stdout

    def emit(s: str) -> None:
        if not quiet:
            print(s, file=out)

    try:
        mod = _prop_module(pid)
        an = Analysis(repo)
        mod.check(an)
        from .props.common import wellformed_for

        wellformed_for(an, pid)
        liveness = []
        if hasattr(mod, "liveness"):
            liveness = mod.liveness(os.path.join(VERIF, "fixtures"))
        extra: dict = {}
        if tier == "thorough":
            if hasattr(mod, "thorough"):
                extra = mod.thorough(an, repo) or {}
            extra["selftest"] = _selftest(pid, repo)
        known, fixed = load_known(known_path)
    except AnalysisError as exc:
        print(f"ANALYSIS-ERROR property={pid} {exc}")
        _write_error_evidence(ev_path, pid, tier, seed, str(exc), time.time() - t0)
        return 2
    except Exception as exc:  # noqa: BLE001 - a traceback must never look like a violation
        print(f"ANALYSIS-ERROR property={pid} internal error: {exc!r}")
        traceback.print_exc()
        _write_error_evidence(ev_path, pid, tier, seed, repr(exc), time.time() - t0)
        return 2

    findings: list[Finding] = []
    for ob in an.obligations:
        for f in ob.findings:
            for k in known:
                if k.prop == f.prop and k.rule == f.rule and k.at == f.at and k.construct == f.construct:
                    f.known = k.what
                    k.used = True
            findings.append(f)
    for f in extra.get("findings", []):
        findings.append(f)
    violations = [f for f in findings if f.known is None]
    known_hits = [f for f in findings if f.known is not None]
    stale = [k for k in known if k.prop == pid and not k.used]

    obligations = len(an.obligations)
    discharged = sum(1 for ob in an.obligations if ob.discharged)
    instances = sum(len(ob.instances) for ob in an.obligations)
    nontrivial = sum(1 for ob in an.obligations if ob.instances)
    for ob in an.obligations:
        emit(
            f"  {ob.id:<8} {ob.kind:<10} instances={len(ob.instances):<3} "
            f"{'ok' if not ob.findings else ('KNOWN' if ob.discharged else 'FAIL')}  {ob.rule[:110]}"
        )
    for f in known_hits:
        print(f"KNOWN-FINDING: property={f.prop} {f.known}  [{f.rule} at {f.at}: {f.construct}]")
    for k in stale:
        emit(f"note: stale known-finding entry (construct no longer reported): {k.rule} at {k.at}: {k.construct}")
    if violations:
        with open(replay_path, "w", encoding="utf-8") as fh:
            json.dump({"property": pid, "repo": repo, "violations": [f.as_dict() for f in violations]}, fh, indent=1)
        print(f"VIOLATION property={pid} replay={replay_path}")
        for f in violations:
            print(f"  {f.file}:{f.line} {f.at}  {f.rule}  `{f.construct}`  - {f.message}")
            if f.path:
                print(f"      path: {f.path}")
    elif os.path.exists(replay_path):
        os.remove(replay_path)

    stats = an.stats()
    samples = []
    for ob in an.obligations:
        samples.append(
            {
                "obligation": ob.id,
                "kind": ob.kind,
                "rule": ob.rule,
                "anchors": ob.anchors,
                "instances": len(ob.instances),
                "inspected": ob.instances[:6],
                "findings": [f.as_dict() for f in ob.findings],
                "notes": ob.notes[:6],
                "discharged": ob.discharged,
            }
        )
    evidence = {
        "property_id": pid,
        "tier": tier,
        "seed": seed,
        "level": "other",
        "coverage": {
            "explanation": (
                "Static analysis of the current working tree of /repo (nothing from haiway is imported or run): "
                "the property is decomposed into structural obligations (DESIGN.md section 4, " + pid + "); each obligation "
                "is a query over the resolved program model - AST, annotation-driven callee resolution, per-function "
                "control-flow graphs with exceptional edges, dependency closure - evaluated on every anchored "
                "function. 'obligations'/'discharged' count them; 'evaluations' counts the concrete constructs "
                "(call sites, handlers, branches, paths) the rules inspected on this run; 'samples' lists them."
            ),
            "obligations": obligations,
            "discharged": discharged,
            "evaluations": max(instances, 1),
            "distinct_nontrivial": nontrivial,
            "rule": "an obligation is non-trivial when it inspected at least one real construct of the tree; instances are constructs matched by the rule's anchor pattern",
            "samples": samples,
            "checker_cmd": f"/venv/bin/python -m hwverif.cli check {pid} --tier {tier}",
            "trusted_base": [
                "CPython 3.12 semantics of contextvars, asyncio (TaskGroup, shield, gather, Future), OrderedDict, logging, copy/pickle (API_FACTS in hwverif/facts.py)",
                "python ast module",
                "hwverif CFG builder and resolver (exercised by selftest variants and fixtures)",
            ],
            "exhaustive": True,
            "analysed": stats,
            "rule_liveness": liveness,
            "known_findings_matched": [f.as_dict() for f in known_hits],
            "fixed_entries": [x for x in fixed if f"property={pid} " in x],
            **{k: v for k, v in extra.items() if k != "findings"},
        },
        "assumptions": getattr(mod, "ASSUMPTIONS", []),
        "wall_s": round(time.time() - t0, 3),
        "violations": len(violations),
    }
    with open(ev_path, "w", encoding="utf-8") as fh:
        json.dump(evidence, fh, indent=1)
    emit(
        f"{pid}: obligations={obligations} discharged={discharged} instances={instances} "
        f"violations={len(violations)} known={len(known_hits)} wall={evidence['wall_s']}s"
    )
    return 1 if violations else 0


def _selftest(pid: str, repo: str) -> dict:
    """Thorough tier: run the checker self-test variants of this property on scratch copies of the
    current tree (both directions).  Informational: a mismatch is recorded and printed, it never
    turns into a verdict about /repo."""
    if VERIF not in sys.path:
        sys.path.insert(0, VERIF)
    try:
        from selftest.harness import run_all

        results = run_all(repo, props=[pid])
    except Exception as exc:  # noqa: BLE001
        return {"error": repr(exc)}
    brk = [r for r in results if r["breaking"] and pid in r["results"]]
    ben = [r for r in results if not r["breaking"] and pid in r["results"]]
    skipped = [r["variant"] for r in results if any(p.startswith("edit failed") for p in r["problems"])]
    killed = [r["variant"] for r in brk if r["results"][pid]["exit"] == 1]
    silent = [r["variant"] for r in ben if r["results"][pid]["exit"] == 0]
    mism = [{"variant": r["variant"], "problems": r["problems"]} for r in results if not r["ok"] and r["variant"] not in skipped]
    for m in mism:
        print(f"SELFTEST-NOTE property={pid} variant={m['variant']}: {'; '.join(m['problems'])[:300]}")
    return {
        "variants_run": len(results),
        "breaking_variants": len(brk),
        "breaking_reported": len(killed),
        "benign_variants": len(ben),
        "benign_silent": len(silent),
        "not_applicable_to_this_tree": skipped,
        "mismatches": mism,
        "sample_variants": [r["variant"] + ": " + "; ".join(r["edits"])[:120] for r in results[:8]],
    }


def _write_error_evidence(path: str, pid: str, tier: str, seed: int, msg: str, wall: float) -> None:
    ev = {
        "property_id": pid,
        "tier": tier,
        "seed": seed,
        "level": "other",
        "coverage": {"explanation": f"ANALYSIS-ERROR: {msg}", "evaluations": 1, "distinct_nontrivial": 0, "samples": [msg]},
        "wall_s": round(wall, 3),
        "violations": 0,
    }
    try:
        with open(path, "w", encoding="utf-8") as fh:
            json.dump(ev, fh, indent=1)
    except OSError:
        pass


def main(argv: list[str] | None = None) -> int:
    ap = argparse.ArgumentParser(prog="hwverif")
    sub = ap.add_subparsers(dest="cmd", required=True)
    c = sub.add_parser("check")
    c.add_argument("property")
    c.add_argument("--tier", default=os.environ.get("VERIF_TIER", "quick"), choices=["quick", "thorough"])
    c.add_argument("--repo", default=os.environ.get("HWVERIF_REPO", "/repo"))
    c.add_argument("--evidence-dir", default=None)
    c.add_argument("--quiet", action="store_true")
    r = sub.add_parser("replay")
    r.add_argument("path")
    r.add_argument("--repo", default=os.environ.get("HWVERIF_REPO", "/repo"))
    a = sub.add_parser("all")
    a.add_argument("--tier", default="quick", choices=["quick", "thorough"])
    a.add_argument("--repo", default=os.environ.get("HWVERIF_REPO", "/repo"))
    a.add_argument("--evidence-dir", default=None)
    args = ap.parse_args(argv)
    if args.cmd == "check":
        pid = args.property.upper()
        if pid not in ALL_PROPS:
            print(f"ANALYSIS-ERROR unknown property {pid}")
            return 2
        return run_property(pid, args.repo, args.tier, args.evidence_dir, quiet=args.quiet)
    if args.cmd == "replay":
        with open(args.path, encoding="utf-8") as fh:
            rec = json.load(fh)
        print(f"replaying {rec['property']} against {args.repo} (recorded violations: {len(rec['violations'])})")
        for v in rec["violations"]:
            print(f"  recorded: {v['file']}:{v['line']} {v['rule']} `{v['construct']}` - {v['message']}")
            if v.get("path"):
                print(f"      path: {v['path']}")
        return run_property(rec["property"], args.repo, "quick", evidence_dir=os.path.join("/var/tmp", "hwverif-replay"))
    if args.cmd == "all":
        worst = 0
        for pid in ALL_PROPS:
            try:
                _prop_module(pid)
            except ModuleNotFoundError:
                continue
            rc = run_property(pid, args.repo, args.tier, args.evidence_dir, quiet=True)
            print(f"{pid}: exit {rc}")
            worst = max(worst, rc)
        return worst
    return 2


if __name__ == "__main__":
    sys.exit(main())
