"""hwverif - repository-specific static analyser for miquido/haiway.

Nothing from haiway is imported or executed; every verdict is computed from the
source text of the current working tree (see /verif/DESIGN.md).
"""

__all__ = ["AnalysisError"]


class AnalysisError(Exception):
    """The analysis cannot be carried out (vanished anchor, unparsable file,
    unrecognised idiom).  Reported as ``ANALYSIS-ERROR`` with exit code 2 -
    never as a pass and never as a VIOLATION."""
